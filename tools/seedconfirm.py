#!/usr/bin/env python3
"""Confirm a seeded change in its scratch worktree: demo passes without / fails with the patch; baseline tests still pass.
usage: seedconfirm.py <worktree> <seed_dir_in_verif>"""
import json, os, re, subprocess, sys, time
wt, sd = sys.argv[1], sys.argv[2]
env = dict(os.environ, CARGO_TARGET_DIR=os.path.join(wt, "target"), CARGO_NET_OFFLINE="true")
def sh(cmd, timeout=7200):
    p = subprocess.run(cmd, shell=True, cwd=wt, env=env, capture_output=True, text=True, timeout=timeout)
    return p.returncode, p.stdout + p.stderr
def reset():
    sh("git checkout -- . && git clean -fdq -e SEED -e target")
meta = json.load(open(os.path.join(sd, "agent_meta.json")))
demo_cmd = meta["demo_cmd"]
demo_cmd = re.sub(r"CARGO_TARGET_DIR=\S+\s*", "", demo_cmd)
res = {"demo_cmd": demo_cmd}
reset()
rc, out = sh("git apply %s/demo.diff" % sd); assert rc == 0, out
rc, out = sh(demo_cmd); res["demo_without_patch"] = "pass" if rc == 0 else "FAIL"; res["demo_without_patch_tail"] = out[-600:]
rc, out = sh("git apply %s/patch.diff" % sd); assert rc == 0, out
rc, out = sh(demo_cmd); res["demo_with_patch"] = "fail" if rc != 0 else "PASSES"; res["demo_with_patch_tail"] = out[-1200:]
reset()
rc, out = sh("git apply %s/patch.diff" % sd); assert rc == 0, out
t0 = time.time()
rc, out = sh("cargo test --workspace --no-fail-fast --offline 2>&1")
base = json.load(open("/root/.vp/BASELINE.json"))["stable_pass"]
ok, failed = set(), set()
cur = None
for ln in out.split("\n"):
    m = re.search(r"Running (?:unittests )?(\S+) \(.*?/deps/([A-Za-z0-9_]+)-[0-9a-f]+\)", ln)
    if m:
        cur = m.group(2)
        continue
    m = re.match(r"test (\S+) \.\.\. (ok|FAILED)", ln)
    if m:
        (ok if m.group(2) == "ok" else failed).add((cur, m.group(1)))
def status(name):
    parts = name.split("::")
    for k in range(1, len(parts)):
        suffix = "::".join(parts[k:])
        for (c, t) in ok:
            if t == suffix: return "ok"
        for (c, t) in failed:
            if t == suffix: return "FAILED"
    return "not-run"
st = {n: status(n) for n in base}
res["baseline_with_patch"] = {"stable_pass_total": len(base), "ok": sum(1 for v in st.values() if v == "ok"),
                              "failed": [n for n, v in st.items() if v == "FAILED"], "not_run": [n for n, v in st.items() if v == "not-run"][:10],
                              "compiles": "error: could not compile" not in out, "wall_s": round(time.time() - t0)}
reset()
res["confirmed"] = (res["demo_without_patch"] == "pass" and res["demo_with_patch"] == "fail" and res["baseline_with_patch"]["compiles"]
                    and not res["baseline_with_patch"]["failed"])
json.dump(res, open(os.path.join(sd, "confirm.json"), "w"), indent=1)
print(sd, "confirmed" if res["confirmed"] else "NOT CONFIRMED", res["demo_without_patch"], res["demo_with_patch"], res["baseline_with_patch"]["ok"], res["baseline_with_patch"]["failed"][:3])
