#!/usr/bin/env python3
"""False-alarm test: apply each behaviour-preserving refactoring to /repo, run the checks that cover the touched file, revert.
usage: refactor_check.py <dir with refactor_NN.diff> [NN ...]   -> writes <dir>/results.json"""
import glob, json, os, re, subprocess, sys
d = sys.argv[1]
only = set(sys.argv[2:])
MAP = [("toktrie/src/svob.rs", ["C16", "C19"]), ("toktrie/src/toktree.rs", ["C16", "C13"]), ("toktrie/src/recognizer.rs", ["C16"]),
       ("parser/src/earley/parser.rs", ["C11", "C12", "C01", "C19"]), ("parser/src/tokenparser.rs", ["C12", "C18"]),
       ("parser/src/grammar_builder.rs", ["C09", "C19"]), ("parser/src/json/compiler.rs", ["C09"]),
       ("parser/src/json/numeric.rs", ["C08"]), ("parser/src/json/schema.rs", ["C08"]), ("parser/src/ffi_par.rs", ["C17"]),
       ("parser/src/ffi.rs", ["C17"]), ("parser/src/stop_controller.rs", ["C18"]), ("parser/src/constraint.rs", ["C18"]),
       ("parser/src/lark/compiler.rs", ["C09"])]
res = {}
rp = os.path.join(d, "results.json")
if os.path.exists(rp):
    res = json.load(open(rp))
for f in sorted(glob.glob(os.path.join(d, "refactor_*.diff"))):
    nn = re.search(r"refactor_(\d+)", f).group(1)
    if only and nn not in only:
        continue
    txt = open(f).read()
    files = re.findall(r"^\+\+\+ b/(\S+)", txt, re.M)
    props = []
    for fl in files:
        for k, ps in MAP:
            if fl == k:
                props += [p for p in ps if p not in props]
    subprocess.run(["git", "-C", "/repo", "checkout", "--", "."], check=True)
    a = subprocess.run(["git", "-C", "/repo", "apply", f], capture_output=True, text=True)
    if a.returncode != 0:
        res[nn] = {"files": files, "error": "patch does not apply: " + a.stderr[:200]}
        continue
    out = {}
    try:
        for p in props:
            r = subprocess.run(["/verif/check", p, "--tier", "quick"], capture_output=True, text=True, timeout=3600)
            lines = [l for l in r.stdout.split("\n") if l.startswith(("VIOLATION", "UNDECIDED", "property"))]
            out[p] = {"rc": r.returncode, "lines": lines[:4]}
    finally:
        subprocess.run(["git", "-C", "/repo", "checkout", "--", "."], check=True)
    res[nn] = {"files": files, "checks": out}
    json.dump(res, open(rp, "w"), indent=1)
    print(nn, files, {p: v["rc"] for p, v in out.items()}, flush=True)
