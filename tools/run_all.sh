#!/bin/bash
# run every registered check (quick tier by default) on the current tree; prints a summary line per property
cd "$(dirname "$0")/.."
tier=${1:-quick}
for id in $(python3 -c "import json;print(' '.join(json.load(open('registry.json'))['properties'].keys()))"); do
  out=$(./check $id --tier $tier 2>&1); rc=$?
  echo "$id rc=$rc $(echo "$out" | head -1)"
  echo "$out" | grep -E "VIOLATION|UNDECIDED|KNOWN" | head -5
done
