#!/usr/bin/env python3
"""Apply every seeded change to /repo, run its property's check, undo. Writes seeded/sweep.json."""
import glob, json, os, subprocess, sys
res = {}
try:
    res = json.load(open('/verif/seeded/sweep.json'))  # merge with earlier results
except Exception:
    res = {}
only = set(sys.argv[1:])
for d in sorted(glob.glob("/verif/seeded/C*")):
    sid = os.path.basename(d)
    if only and sid not in only:
        continue
    prop = sid.split("-")[0]
    subprocess.run(["git", "-C", "/repo", "checkout", "--", "."], check=True)
    a = subprocess.run(["git", "-C", "/repo", "apply", d + "/patch.diff"], capture_output=True, text=True)
    if a.returncode != 0:
        res[sid] = {"error": "patch does not apply: " + a.stderr[:200]}
        continue
    try:
        tiers = ["quick"] + (["thorough"] if sid in ("C19-b",) else [])
        out = {}
        for t in tiers:
            r = subprocess.run(["/verif/check", prop, "--tier", t], capture_output=True, text=True, timeout=7200)
            out[t] = {"rc": r.returncode, "lines": [l for l in r.stdout.split("\n") if l.startswith(("VIOLATION", "UNDECIDED", "property"))][:5]}
        res[sid] = out
    finally:
        subprocess.run(["git", "-C", "/repo", "checkout", "--", "."], check=True)
    json.dump(res, open("/verif/seeded/sweep.json", "w"), indent=1)
    print(sid, {t: v["rc"] for t, v in res[sid].items()}, flush=True)
