use vstd::prelude::*;
verus! {

#[derive(Clone, Copy)]
pub struct TrieNode { pub bits: u32, pub bits2: u32 }

pub const NO_TOKEN: u32 = 0xffffff;

pub open spec fn nbyte(n: TrieNode) -> u8 { (n.bits & 0xff) as u8 }
pub open spec fn nsize(n: TrieNode) -> nat { (n.bits2 >> 10u32) as nat }
pub open spec fn nparents(n: TrieNode) -> nat { ((n.bits2 & 0x3ffu32) + 1) as nat }
pub open spec fn ntok(n: TrieNode) -> u32 { n.bits >> 8u32 }

impl TrieNode {
    pub fn byte(&self) -> (r: u8) ensures r == nbyte(*self) { (self.bits & 0xff) as u8 }
    pub fn subtree_size(&self) -> (r: usize) ensures r == nsize(*self) { (self.bits2 >> 10) as usize }
    pub fn num_parents(&self) -> (r: usize) ensures r == nparents(*self) {
        let b2 = self.bits2;
        assert((b2 & 0x3ffu32) < 0x400u32) by (bit_vector);
        ((self.bits2 & 0x3ff) + 1) as usize
    }
    pub fn token_id(&self) -> (r: Option<u32>)
        ensures r == (if ntok(*self) == NO_TOKEN { None::<u32> } else { Some(ntok(*self)) })
    {
        let r = self.bits >> 8;
        if r == NO_TOKEN { None } else { Some(r) }
    }
}

pub open spec fn dh(d: Seq<nat>, e: int) -> nat { if e < d.len() { d[e] } else { 1 } }

pub open spec fn step_ok(d: Seq<nat>, j: int) -> bool { d[j] >= 1 && d[j] <= d[j - 1] + 1 }
pub open spec fn size_ok(nodes: Seq<TrieNode>, j: int) -> bool { nsize(nodes[j]) >= 1 && j + nsize(nodes[j]) <= nodes.len() }
pub open spec fn deeper(nodes: Seq<TrieNode>, d: Seq<nat>, j: int, k: int) -> bool { (j < k < j + nsize(nodes[j])) ==> d[k] > d[j] }
pub open spec fn next_ok(nodes: Seq<TrieNode>, d: Seq<nat>, j: int) -> bool {
    (j + nsize(nodes[j]) < nodes.len()) ==> d[j + nsize(nodes[j])] <= d[j]
}
pub open spec fn np_ok(nodes: Seq<TrieNode>, d: Seq<nat>, j: int) -> bool {
    nparents(nodes[j]) == d[j] - dh(d, j + nsize(nodes[j])) + 1
}

pub open spec fn trie_wf(nodes: Seq<TrieNode>, d: Seq<nat>) -> bool {
    &&& nodes.len() >= 1
    &&& d.len() == nodes.len()
    &&& d[0] == 0
    &&& nsize(nodes[0]) == nodes.len()
    &&& forall|j: int| 1 <= j < nodes.len() ==> #[trigger] step_ok(d, j)
    &&& forall|j: int| 0 <= j < nodes.len() ==> #[trigger] size_ok(nodes, j)
    &&& forall|j: int, k: int| 0 <= j < nodes.len() && 0 <= k < nodes.len() ==> #[trigger] deeper(nodes, d, j, k)
    &&& forall|j: int| 0 <= j < nodes.len() ==> #[trigger] next_ok(nodes, d, j)
    &&& forall|j: int| 1 <= j < nodes.len() ==> #[trigger] np_ok(nodes, d, j)
}

pub open spec fn path(nodes: Seq<TrieNode>, d: Seq<nat>, j: int) -> Seq<u8>
    decreases j
{
    if j <= 0 { Seq::empty() } else {
        path(nodes, d, j - 1).take(d[j] - 1).push(nbyte(nodes[j]))
    }
}

pub proof fn lemma_path_len(nodes: Seq<TrieNode>, d: Seq<nat>, j: int)
    requires trie_wf(nodes, d), 0 <= j < nodes.len(),
    ensures path(nodes, d, j).len() == d[j],
    decreases j
{
    if j > 0 {
        lemma_path_len(nodes, d, j - 1);
        assert(step_ok(d, j));
    }
}

// descendants extend the path
pub proof fn lemma_desc_path(nodes: Seq<TrieNode>, d: Seq<nat>, p: int, k: int)
    requires trie_wf(nodes, d), 0 <= p < nodes.len(), p <= k < p + nsize(nodes[p]),
    ensures path(nodes, d, k).len() == d[k], d[k] >= d[p], path(nodes, d, k).take(d[p] as int) == path(nodes, d, p),
    decreases k - p
{
    assert(size_ok(nodes, p));
    lemma_path_len(nodes, d, k);
    lemma_path_len(nodes, d, p);
    if k == p {
        assert(path(nodes, d, p).take(d[p] as int) == path(nodes, d, p));
    } else {
        lemma_desc_path(nodes, d, p, k - 1);
        lemma_path_len(nodes, d, k - 1);
        let a = path(nodes, d, k - 1);
        assert(size_ok(nodes, p));
        assert(deeper(nodes, d, p, k));
        assert(step_ok(d, k));
        assert(d[k] > d[p]);
        assert(path(nodes, d, k) == a.take(d[k] - 1).push(nbyte(nodes[k])));
        assert(a.take(d[k] - 1).push(nbyte(nodes[k])).take(d[p] as int) == a.take(d[p] as int));
    }
}


pub proof fn lemma_nested(nodes: Seq<TrieNode>, d: Seq<nat>, j: int, k: int)
    requires trie_wf(nodes, d), 0 <= j < nodes.len(), j < k < j + nsize(nodes[j]),
    ensures k + nsize(nodes[k]) <= j + nsize(nodes[j]),
{
    assert(size_ok(nodes, j));
    assert(size_ok(nodes, k));
    let e = j + nsize(nodes[j]);
    if k + nsize(nodes[k]) > e {
        assert(e < nodes.len());
        assert(deeper(nodes, d, k, e));
        assert(deeper(nodes, d, j, k));
        assert(next_ok(nodes, d, j));
    }
}

pub proof fn lemma_ok_take<R: Recognizer>(r: &R, s: Seq<u8>, k: int)
    requires prefix_closed(r), r.ok(s), 0 <= k <= s.len(),
    ensures r.ok(s.take(k)),
    decreases s.len() - k
{
    if k < s.len() {
        let t = s.take(s.len() - 1);
        assert(t.push(s[s.len() - 1]) =~= s);
        assert(r.ok(t));
        assert(t.take(k) =~= s.take(k));
        lemma_ok_take(r, t, k);
    } else {
        assert(s.take(k) =~= s);
    }
}

pub trait Recognizer {
    spec fn stack(&self) -> Seq<u8>;
    spec fn ok(&self, s: Seq<u8>) -> bool;
    // the acceptor itself (ok) never changes; stack discipline
    fn pop_bytes(&mut self, num: usize)
        requires num <= old(self).stack().len(),
        ensures final(self).stack() == old(self).stack().take(old(self).stack().len() - num),
            forall|s: Seq<u8>| final(self).ok(s) == old(self).ok(s);
    fn try_push_byte(&mut self, byte: u8) -> (r: bool)
        ensures r == old(self).ok(old(self).stack().push(byte)),
            final(self).stack() == (if r { old(self).stack().push(byte) } else { old(self).stack() }),
            forall|s: Seq<u8>| final(self).ok(s) == old(self).ok(s);
}

pub struct Toks { pub ghost view: ISet<u32> }
impl Toks {
    #[verifier::external_body]
    pub fn allow_token_unchecked(&mut self, tok: u32)
        ensures final(self).view == old(self).view.insert(tok),
    { }
}

pub open spec fn rel(nodes: Seq<TrieNode>, d: Seq<nat>, off: int, j: int) -> Seq<u8> {
    path(nodes, d, j).skip(d[off] as int)
}

// tokens of nodes in (off, p) whose relative path is accepted from s0
pub open spec fn acc_set(nodes: Seq<TrieNode>, d: Seq<nat>, r: &impl Recognizer, s0: Seq<u8>, off: int, p: int, vocab: u32) -> ISet<u32> {
    ISet::new(|t: u32| exists|j: int| off < j < p && #[trigger] tokv(nodes[j], vocab) == t && r.ok(s0 + rel(nodes, d, off, j)))
}
pub open spec fn tokv(n: TrieNode, vocab: u32) -> u32 { if ntok(n) == NO_TOKEN { vocab } else { ntok(n) } }

pub open spec fn prefix_closed(r: &impl Recognizer) -> bool {
    forall|s: Seq<u8>, b: u8| r.ok(#[trigger] s.push(b)) ==> r.ok(s)
}

pub fn add_bias_inner(r: &mut impl Recognizer, toks: &mut Toks, nodes: &Vec<TrieNode>, off: usize, vocab: u32, Ghost(d): Ghost<Seq<nat>>) -> (res: (usize, usize))
    requires
        trie_wf(nodes@, d), off < nodes@.len(),
        prefix_closed(old(r)),
        old(r).ok(old(r).stack()),
    ensures
        final(toks).view == old(toks).view.union(acc_set(nodes@, d, old(r), old(r).stack(), off as int, off + nsize(nodes@[off as int]), vocab)),
{
    let defl_tok = vocab;
    let n = &nodes[off];
    proof { assert(size_ok(nodes@, off as int)); }
    let total_nodes = n.subtree_size();
    let mut p = off + 1;
    let endp = off + total_nodes;
    let mut next_pop: usize = 0;
    let mut num_skip: usize = 0;
    let ghost s0 = r.stack();
    proof {
        if p < endp {
            assert(deeper(nodes@, d, off as int, p as int));
            assert(step_ok(d, p as int));
            lemma_path_len(nodes@, d, off as int);
            lemma_path_len(nodes@, d, p as int);
            let pp = path(nodes@, d, p as int).take(d[p as int] - 1);
            assert(pp.len() == d[off as int]);
            assert(pp.skip(d[off as int] as int) =~= Seq::<u8>::empty());
            assert(r.stack().take(r.stack().len() - 0) =~= s0 + pp.skip(d[off as int] as int));
        }
        assert(acc_set(nodes@, d, r, s0, off as int, p as int, vocab) =~= ISet::<u32>::empty());
        assert(toks.view =~= toks.view.union(ISet::<u32>::empty()));
    }
    while p < endp
        invariant
            trie_wf(nodes@, d), off < nodes@.len(), endp == off + nsize(nodes@[off as int]), endp <= nodes@.len(),
            off + 1 <= p <= endp, defl_tok == vocab,
            prefix_closed(r), forall|s: Seq<u8>| r.ok(s) == old(r).ok(s), old(r).ok(s0),
            s0 == old(r).stack(),
            p < endp ==> next_pop <= r.stack().len(),
            p < endp ==> r.stack().take(r.stack().len() - next_pop) == s0 + path(nodes@, d, p as int).take(d[p as int] - 1).skip(d[off as int] as int),
            p < endp ==> r.ok(r.stack().take(r.stack().len() - next_pop)),
            toks.view == old(toks).view.union(acc_set(nodes@, d, old(r), s0, off as int, p as int, vocab)),
        decreases endp - p,
    {
        let ghost sA = r.stack();
        let ghost pi = p as int;
        let ghost oi = off as int;
        r.pop_bytes(next_pop);
        let n = &nodes[p];
        let b = n.byte();
        let ghost s1 = r.stack();
        let ghost pp = path(nodes@, d, pi).take(d[pi] - 1);
        proof {
            assert(size_ok(nodes@, pi)); assert(size_ok(nodes@, oi));
            assert(deeper(nodes@, d, oi, pi));
            assert(step_ok(d, pi));
            lemma_desc_path(nodes@, d, oi, pi);
            lemma_path_len(nodes@, d, pi);
            lemma_path_len(nodes@, d, oi);
            lemma_nested(nodes@, d, oi, pi);
            assert(s1 == s0 + pp.skip(d[oi] as int));
            assert(path(nodes@, d, pi) =~= pp.push(b));
            assert(s1.push(b) =~= s0 + rel(nodes@, d, oi, pi));
        }
        if r.try_push_byte(b) {
            let tok = match n.token_id() { Some(t) => t, None => defl_tok };
            assert(*n == nodes@[pi]);
            assert(tok == tokv(nodes@[pi], vocab));
            toks.allow_token_unchecked(tok);
            next_pop = if n.subtree_size() == 1 { n.num_parents() } else { 0 };
            p += 1;
            proof {
                let s2 = r.stack();
                assert(s2 == s1.push(b));
                assert(tok == tokv(nodes@[pi], vocab));
                // accepted set grows by this node
                assert(acc_set(nodes@, d, old(r), s0, oi, pi + 1, vocab) =~= acc_set(nodes@, d, old(r), s0, oi, pi, vocab).insert(tok)) by {
                    assert forall|t: u32| acc_set(nodes@, d, old(r), s0, oi, pi + 1, vocab).contains(t) <==> acc_set(nodes@, d, old(r), s0, oi, pi, vocab).insert(tok).contains(t) by {
                        if acc_set(nodes@, d, old(r), s0, oi, pi + 1, vocab).contains(t) {
                            let j = choose|j: int| oi < j < pi + 1 && #[trigger] tokv(nodes@[j], vocab) == t && old(r).ok(s0 + rel(nodes@, d, oi, j));
                            if j < pi { assert(acc_set(nodes@, d, old(r), s0, oi, pi, vocab).contains(t)); }
                        }
                        if acc_set(nodes@, d, old(r), s0, oi, pi, vocab).insert(tok).contains(t) {
                            if t == tok {
                                assert(tokv(nodes@[pi], vocab) == t && old(r).ok(s0 + rel(nodes@, d, oi, pi)));
                            } else {
                                let j = choose|j: int| oi < j < pi && #[trigger] tokv(nodes@[j], vocab) == t && old(r).ok(s0 + rel(nodes@, d, oi, j));
                                assert(oi < j < pi + 1);
                            }
                        }
                    }
                }
                if (p as int) < endp {
                    let q = p as int;
                    assert(step_ok(d, q));
                    assert(deeper(nodes@, d, oi, q));
                    lemma_path_len(nodes@, d, q);
                    let pq = path(nodes@, d, q).take(d[q] - 1);
                    assert(pq =~= path(nodes@, d, pi).take(d[q] - 1));
                    if nsize(nodes@[pi]) == 1 {
                        assert(next_ok(nodes@, d, pi));
                        assert(np_ok(nodes@, d, pi));
                        assert(s2.take(s2.len() - next_pop) =~= s0 + pq.skip(d[oi] as int));
                        lemma_ok_take(r, s2, s2.len() - next_pop);
                    } else {
                        assert(deeper(nodes@, d, pi, q));
                        assert(s2.take(s2.len() - next_pop) =~= s0 + pq.skip(d[oi] as int));
                        assert(s2.take(s2.len() - next_pop) =~= s2);
                    }
                }
            }
        } else {
            let subtree_size = n.subtree_size();
            p += subtree_size;
            next_pop = n.num_parents() - 1;
            proof {
                let q = p as int;
                assert(!old(r).ok(s0 + rel(nodes@, d, oi, pi)));
                // nothing in the skipped subtree is accepted
                assert(acc_set(nodes@, d, old(r), s0, oi, q, vocab) =~= acc_set(nodes@, d, old(r), s0, oi, pi, vocab)) by {
                    assert forall|t: u32| acc_set(nodes@, d, old(r), s0, oi, q, vocab).contains(t) implies acc_set(nodes@, d, old(r), s0, oi, pi, vocab).contains(t) by {
                        let j = choose|j: int| oi < j < q && #[trigger] tokv(nodes@[j], vocab) == t && old(r).ok(s0 + rel(nodes@, d, oi, j));
                        if j >= pi {
                            lemma_desc_path(nodes@, d, pi, j);
                            let full = s0 + rel(nodes@, d, oi, j);
                            lemma_ok_take(r, full, s0.len() + d[pi] - d[oi]);
                            assert(full.take(s0.len() + d[pi] - d[oi]) =~= s0 + rel(nodes@, d, oi, pi));
                        }
                    }
                }
                if q < endp {
                    assert(next_ok(nodes@, d, pi));
                    assert(np_ok(nodes@, d, pi));
                    assert(step_ok(d, q));
                    assert(deeper(nodes@, d, oi, q));
                    lemma_path_len(nodes@, d, q);
                    lemma_desc_path(nodes@, d, pi, q - 1);
                    let pq = path(nodes@, d, q).take(d[q] - 1);
                    assert(pq =~= path(nodes@, d, pi).take(d[q] - 1));
                    assert(s1.take(s1.len() - next_pop) =~= s0 + pq.skip(d[oi] as int));
                    lemma_ok_take(r, s1, s1.len() - next_pop);
                }
            }
        }
    }
    (next_pop, total_nodes - num_skip)
}

} // verus!
fn main() {}
