// Unit repeat_v: the repetition factorisation of parser/src/grammar_builder.rs (at_most, simple_repeat, repeat_exact,
// at_least, repeat) returns exactly the count set it names, for EVERY n (induction on n).  Real bodies spliced from /repo.
use vstd::prelude::*;
use vstd::arithmetic::mul::*;
verus! {

global size_of usize == 8;

// ---- environment: opaque node handle, std HashMap replaced by an assumed map contract ----
#[derive(Clone, Copy)]
pub struct NodeRef { pub id: u64 }

/// stands for std::collections::HashMap (same method names/shapes as used by the extracted code); ASSUMED map semantics
pub struct HashMap<K, V> { pub m: Ghost<Map<K, V>> }
impl<K, V> HashMap<K, V> {
    pub open spec fn view(&self) -> Map<K, V> { self.m@ }
    #[verifier::external_body]
    pub fn get(&self, k: &K) -> (r: Option<&V>)
        ensures match r { Some(v) => self@.contains_key(*k) && *v == self@[*k], None => !self@.contains_key(*k) },
    { unimplemented!() }
    #[verifier::external_body]
    pub fn insert(&mut self, k: K, v: V) -> (r: Option<V>)
        ensures final(self)@ == old(self)@.insert(k, v),
    { unimplemented!() }
}

//@@ const parser/src/grammar_builder.rs K
//@@ struct parser/src/grammar_builder.rs GrammarBuilder fields=at_most_cache,repeat_exact_cache

// ---- CountSet vocabulary ----
/// the set of numbers of copies of the base element that node n derives (ASSUMED meaning of the builder primitives below)
pub uninterp spec fn cnt(n: NodeRef) -> ISet<nat>;

pub open spec fn single(c: nat) -> ISet<nat> { ISet::new(|x: nat| x == c) }
pub open spec fn mults(c: nat, lo: nat, hi: nat) -> ISet<nat> { ISet::new(|x: nat| exists|j: nat| lo <= j <= hi && x == #[trigger] (j * c)) }
pub open spec fn mults_from(c: nat, lo: nat) -> ISet<nat> { ISet::new(|x: nat| exists|j: nat| lo <= j && x == #[trigger] (j * c)) }
pub open spec fn sumset(a: ISet<nat>, b: ISet<nat>) -> ISet<nat> {
    ISet::new(|x: nat| exists|u: nat, v: nat| #[trigger] a.contains(u) && #[trigger] b.contains(v) && x == u + v)
}
pub open spec fn sum_list(s: Seq<NodeRef>) -> ISet<nat>
    decreases s.len()
{
    if s.len() == 0 { single(0) } else { sumset(sum_list(s.drop_last()), cnt(s.last())) }
}
pub open spec fn union_list(s: Seq<NodeRef>) -> ISet<nat> {
    ISet::new(|x: nat| exists|i: int| 0 <= i < s.len() && #[trigger] cnt(s[i]).contains(x))
}
pub open spec fn is_single(e: NodeRef, c: nat) -> bool { cnt(e) == single(c) }

pub open spec fn at_most_ok(m: Map<(NodeRef, usize), NodeRef>) -> bool {
    forall|e: NodeRef, n: usize, c: nat| #[trigger] m.contains_key((e, n)) && #[trigger] is_single(e, c) ==> cnt(m[(e, n)]) == mults(c, 0, n as nat)
}
pub open spec fn exact_ok(m: Map<(NodeRef, usize), NodeRef>) -> bool {
    forall|e: NodeRef, n: usize, c: nat| #[trigger] m.contains_key((e, n)) && #[trigger] is_single(e, c) ==> cnt(m[(e, n)]) == single(n as nat * c)
}

// ---- arithmetic / set lemmas ----
pub proof fn lemma_sum_single(a: nat, b: nat)
    ensures sumset(single(a), single(b)) =~= single(a + b),
{
    let lhs = sumset(single(a), single(b));
    assert forall|x: nat| #[trigger] lhs.contains(x) == single(a + b).contains(x) by {
        if x == a + b { assert(single(a).contains(a) && single(b).contains(b)); }
    }
}

/// {q*(K c)} + {b c : b <= r}  =  {j c : K q <= j <= K q + r}
pub proof fn lemma_sum_exact_atmost(c: nat, k: nat, q: nat, r: nat)
    ensures sumset(single(q * (k * c)), mults(c, 0, r)) =~= mults(c, k * q, k * q + r),
{
    lemma_mul_is_associative(q as int, k as int, c as int);
    lemma_mul_is_commutative(q as int, k as int);
    assert(q * (k * c) == (k * q) * c);
    let lhs = sumset(single(q * (k * c)), mults(c, 0, r));
    let rhs = mults(c, k * q, k * q + r);
    assert forall|x: nat| #[trigger] lhs.contains(x) == rhs.contains(x) by {
        if lhs.contains(x) {
            let (u, v) = choose|u: nat, v: nat| #[trigger] single(q * (k * c)).contains(u) && #[trigger] mults(c, 0, r).contains(v) && x == u + v;
            let b = choose|b: nat| 0 <= b <= r && v == #[trigger] (b * c);
            lemma_mul_is_distributive_add_other_way(c as int, (k * q) as int, b as int);
            assert(x == (k * q + b) * c);
            assert(k * q <= k * q + b <= k * q + r);
        }
        if rhs.contains(x) {
            let j = choose|j: nat| k * q <= j <= k * q + r && x == #[trigger] (j * c);
            let b: nat = (j - k * q) as nat;
            lemma_mul_is_distributive_add_other_way(c as int, (k * q) as int, b as int);
            assert(x == (k * q) * c + b * c);
            assert(mults(c, 0, r).contains(b * c));
            assert(single(q * (k * c)).contains(q * (k * c)));
        }
    }
}

/// {a (4 c) : a <= m} + {b c : b <= 3}  =  {j c : j <= 4 m + 3}
pub proof fn lemma_sum_blocks(c: nat, m: nat)
    ensures sumset(mults(4 * c, 0, m), mults(c, 0, 3)) =~= mults(c, 0, 4 * m + 3),
{
    let lhs = sumset(mults(4 * c, 0, m), mults(c, 0, 3));
    let rhs = mults(c, 0, 4 * m + 3);
    assert forall|x: nat| #[trigger] lhs.contains(x) == rhs.contains(x) by {
        if lhs.contains(x) {
            let (u, v) = choose|u: nat, v: nat| #[trigger] mults(4 * c, 0, m).contains(u) && #[trigger] mults(c, 0, 3).contains(v) && x == u + v;
            let a = choose|a: nat| 0 <= a <= m && u == #[trigger] (a * (4 * c));
            let b = choose|b: nat| 0 <= b <= 3 && v == #[trigger] (b * c);
            lemma_mul_is_associative(a as int, 4, c as int);
            lemma_mul_is_distributive_add_other_way(c as int, (a * 4) as int, b as int);
            assert(x == (a * 4 + b) * c);
            assert(a * 4 + b <= 4 * m + 3);
        }
        if rhs.contains(x) {
            let j = choose|j: nat| 0 <= j <= 4 * m + 3 && x == #[trigger] (j * c);
            let a: nat = j / 4;
            let b: nat = j % 4;
            assert(j == a * 4 + b);
            lemma_mul_is_associative(a as int, 4, c as int);
            lemma_mul_is_distributive_add_other_way(c as int, (a * 4) as int, b as int);
            assert(x == a * (4 * c) + b * c);
            assert(a <= m);
            assert(mults(4 * c, 0, m).contains(a * (4 * c)));
            assert(mults(c, 0, 3).contains(b * c));
        }
    }
}

pub proof fn lemma_union_ranges(c: nat, mid: nat, hi: nat)
    requires mid <= hi, mid >= 1,
    ensures ISet::new(|x: nat| mults(c, mid, hi).contains(x) || mults(c, 0, (mid - 1) as nat).contains(x)) =~= mults(c, 0, hi),
{
    let rhs = mults(c, 0, hi);
    assert forall|x: nat| (mults(c, mid, hi).contains(x) || mults(c, 0, (mid - 1) as nat).contains(x)) == #[trigger] rhs.contains(x) by {
        if mults(c, mid, hi).contains(x) {
            let j = choose|j: nat| mid <= j <= hi && x == #[trigger] (j * c);
            assert(0 <= j <= hi);
        }
        if mults(c, 0, (mid - 1) as nat).contains(x) {
            let j = choose|j: nat| 0 <= j <= (mid - 1) as nat && x == #[trigger] (j * c);
            assert(0 <= j <= hi);
        }
        if mults(c, 0, hi).contains(x) {
            let j = choose|j: nat| 0 <= j <= hi && x == #[trigger] (j * c);
            if j >= mid { assert(mid <= j <= hi); } else { assert(0 <= j <= (mid - 1) as nat); }
        }
    }
}

impl GrammarBuilder {
    pub open spec fn inv(&self) -> bool { at_most_ok(self.at_most_cache@) && exact_ok(self.repeat_exact_cache@) }
    pub open spec fn same_caches(&self, o: &GrammarBuilder) -> bool {
        self.at_most_cache@ == o.at_most_cache@ && self.repeat_exact_cache@ == o.repeat_exact_cache@
    }

    // ---- ASSUMED contracts of the builder primitives (concatenation / alternation / star); signatures checked ----
    #[verifier::external_body]
    pub fn empty(&mut self) -> (r: NodeRef)
        ensures cnt(r) == single(0), final(self).same_caches(old(self)),
    { unimplemented!() }
    #[verifier::external_body]
    pub fn optional(&mut self, value: NodeRef) -> (r: NodeRef)
        ensures cnt(r) == ISet::new(|x: nat| x == 0 || cnt(value).contains(x)), final(self).same_caches(old(self)),
    { unimplemented!() }
    #[verifier::external_body]
    pub fn zero_or_more(&mut self, elt: NodeRef) -> (r: NodeRef)
        ensures forall|c: nat| is_single(elt, c) ==> cnt(r) == mults_from(c, 0), final(self).same_caches(old(self)),
    { unimplemented!() }
    #[verifier::external_body]
    pub fn select(&mut self, options: &[NodeRef]) -> (r: NodeRef)
        ensures cnt(r) == union_list(options@), final(self).same_caches(old(self)),
    { unimplemented!() }
    #[verifier::external_body]
    pub fn join(&mut self, values: &[NodeRef]) -> (r: NodeRef)
        ensures cnt(r) == sum_list(values@), final(self).same_caches(old(self)),
    { unimplemented!() }
//@@ sigcheck parser/src/grammar_builder.rs GrammarBuilder::empty :: pub fn empty(&mut self) -> NodeRef
//@@ sigcheck parser/src/grammar_builder.rs GrammarBuilder::optional :: pub fn optional(&mut self, value: NodeRef) -> NodeRef
//@@ sigcheck parser/src/grammar_builder.rs GrammarBuilder::zero_or_more :: pub fn zero_or_more(&mut self, elt: NodeRef) -> NodeRef
//@@ sigcheck parser/src/grammar_builder.rs GrammarBuilder::select :: pub fn select(&mut self, options: &[NodeRef]) -> NodeRef
//@@ sigcheck parser/src/grammar_builder.rs GrammarBuilder::join :: pub fn join(&mut self, values: &[NodeRef]) -> NodeRef

//@@ fn parser/src/grammar_builder.rs GrammarBuilder::simple_repeat
//@ ret r
//@ rewrite R4 :: let elt_n = (0..n).map(|_| elt).collect::<Vec<_>>(); ==> let elt_n = { let mut v = Vec::new(); let mut i = 0; while i < n { v.push(elt); i += 1; } v };
//@ spec
    ensures forall|c: nat| is_single(elt, c) ==> cnt(r) == single(n as nat * c), final(self).same_caches(old(self)),
//@ loop 1
    invariant i <= n, v@.len() == i, forall|q: int| 0 <= q < i ==> v@[q] == elt,
    decreases n - i,
//@ before self.join(&elt_n)
    proof {
        assert forall|c: nat| is_single(elt, c) implies sum_list(elt_n@) == single(n as nat * c) by {
            lemma_sum_rep(elt_n@, elt, c);
        }
    }
//@ end

//@@ fn parser/src/grammar_builder.rs GrammarBuilder::repeat_exact
//@ ret r
//@ rewrite R4 :: let mut elt_left = (0..left).map(|_| elt).collect::<Vec<_>>(); ==> let mut elt_left = { let mut v = Vec::new(); let mut i = 0; while i < left { v.push(elt); i += 1; } v };
//@ spec
    requires old(self).inv(),
    ensures final(self).inv(), forall|c: nat| is_single(elt, c) ==> cnt(r) == single(n as nat * c),
    decreases n,
//@ loop 1
    invariant i <= left, v@.len() == i, forall|q: int| 0 <= q < i ==> v@[q] == elt,
    decreases left - i,
//@ after elt_left.push(inner);
    proof {
        assert forall|c: nat| is_single(elt, c) implies sum_list(elt_left@) == single(n as nat * c) by {
            let pre = elt_left@.drop_last();
            lemma_sum_rep(pre, elt, c);
            assert(is_single(elt_k, K as nat * c));
            assert(cnt(inner) == single((n / K) as nat * (K as nat * c)));
            lemma_sum_single(left as nat * c, (n / K) as nat * (K as nat * c));
            lemma_mul_is_associative((n / K) as int, K as int, c as int);
            lemma_mul_is_distributive_add_other_way(c as int, ((n / K) * K) as int, left as int);
            assert(n == (n / K) * K + left);
        }
    }
//@ before self.repeat_exact_cache.insert((elt, n), r);
    proof {
        assert(forall|c: nat| is_single(elt, c) ==> cnt(r) == single(n as nat * c));
    }
//@ end

//@@ fn parser/src/grammar_builder.rs GrammarBuilder::at_most
//@ ret r
//@ rewrite R4 :: let options = (0..=n) .map(|k| self.simple_repeat(elt, k)) .collect::<Vec<_>>(); ==> let options = { let mut v = Vec::new(); let mut k = 0; while k <= n { v.push(self.simple_repeat(elt, k)); k += 1; } v };
//@ spec
    requires old(self).inv(),
    ensures final(self).inv(), forall|c: nat| is_single(elt, c) ==> cnt(r) == mults(c, 0, n as nat),
    decreases n,
//@ loop 1
    invariant k <= n + 1, n < 3 * K, v@.len() == k, self.inv(),
        forall|q: int, c: nat| 0 <= q < k && #[trigger] is_single(elt, c) ==> cnt(#[trigger] v@[q]) == single(q as nat * c),
    decreases n + 1 - k,
//@ before self.select(&options)
    proof {
        assert forall|c: nat| is_single(elt, c) implies union_list(options@) == mults(c, 0, n as nat) by {
            assert forall|x: nat| union_list(options@).contains(x) == mults(c, 0, n as nat).contains(x) by {
                if union_list(options@).contains(x) {
                    let i = choose|i: int| 0 <= i < options@.len() && #[trigger] cnt(options@[i]).contains(x);
                    assert(cnt(options@[i]) == single(i as nat * c));
                    assert(x == (i as nat) * c);
                }
                if mults(c, 0, n as nat).contains(x) {
                    let j = choose|j: nat| 0 <= j <= n as nat && x == #[trigger] (j * c);
                    assert(cnt(options@[j as int]) == single(j * c));
                    assert(cnt(options@[j as int]).contains(x));
                }
            }
            assert(union_list(options@) =~= mults(c, 0, n as nat));
        }
    }
//@ before let elt_max_k = self.at_most(elt, K - 1);
    let ghost elt_max_nk0 = elt_max_nk;
//@ before self.select(&[elt_n, elt_max_nk])
    proof {
        assert forall|c: nat| is_single(elt, c) implies union_list(seq![elt_n, elt_max_nk]) == mults(c, 0, n as nat) by {
            let q = (n / K) as nat;
            let rem = (n % K) as nat;
            assert(is_single(elt_k, K as nat * c));
            // short sequences: at most q-1 K-blocks plus at most K-1 single elements
            lemma_sum_two(elt_max_nk0, elt_max_k);
            lemma_sum_blocks(c, (q - 1) as nat);
            assert(cnt(elt_max_nk) == mults(c, 0, 4 * (q - 1) as nat + 3));
            // long sequences: exactly q K-blocks plus at most n % K elements
            lemma_sum_two(elt_nk, left);
            lemma_sum_exact_atmost(c, K as nat, q, rem);
            assert(cnt(elt_n) == mults(c, 4 * q, 4 * q + rem));
            lemma_union_ranges(c, 4 * q, n as nat);
            assert forall|x: nat| union_list(seq![elt_n, elt_max_nk]).contains(x) == (mults(c, 4 * q, n as nat).contains(x) || mults(c, 0, (4 * q - 1) as nat).contains(x)) by {
                let s = seq![elt_n, elt_max_nk];
                if union_list(s).contains(x) {
                    let i = choose|i: int| 0 <= i < s.len() && #[trigger] cnt(s[i]).contains(x);
                    assert(i == 0 || i == 1);
                }
                if cnt(elt_n).contains(x) { assert(cnt(s[0]).contains(x)); }
                if cnt(elt_max_nk).contains(x) { assert(cnt(s[1]).contains(x)); }
            }
            assert(union_list(seq![elt_n, elt_max_nk]) =~= mults(c, 0, n as nat));
        }
    }
//@ before self.at_most_cache.insert((elt, n), r);
    proof {
        assert forall|c: nat| is_single(elt, c) implies cnt(r) == mults(c, 0, n as nat) by {
            if n == 0 {
                lemma_mults_small(c);
            } else if n == 1 {
                lemma_mults_small(c);
                assert(cnt(r) =~= mults(c, 0, 1));
            }
        }
    }
//@ end

//@@ fn parser/src/grammar_builder.rs GrammarBuilder::at_least
//@ ret r
//@ spec
    requires old(self).inv(),
    ensures final(self).inv(), forall|c: nat| is_single(elt, c) ==> cnt(r) == mults_from(c, n as nat),
//@ before self.join(&[r, z])
    proof {
        assert forall|c: nat| is_single(elt, c) implies sum_list(seq![r, z]) == mults_from(c, n as nat) by {
            lemma_sum_two(r, z);
            lemma_sum_exact_from(c, n as nat);
        }
    }
//@ end

//@@ fn parser/src/grammar_builder.rs GrammarBuilder::repeat
//@ ret r
//@ spec
    requires old(self).inv(), max is Some ==> min <= max->0,
    ensures final(self).inv(),
        // x{min,max} admits exactly the repetition counts min..=max; x{min,} exactly the counts >= min
        forall|c: nat| is_single(elt, c) ==> cnt(r) == (match max {
            Some(mx) => mults(c, min as nat, mx as nat),
            None => mults_from(c, min as nat),
        }),
//@ before self.join(&[common, extra])
    proof {
        assert forall|c: nat| is_single(elt, c) implies sum_list(seq![common, extra]) == mults(c, min as nat, max as nat) by {
            lemma_sum_two(common, extra);
            lemma_sum_exact_atmost(c, 1, min as nat, d as nat);
            lemma_mul_basics(c as int);
            assert(min as nat * (1 * c) == min as nat * c);
        }
    }
//@ then_start if min == max
    proof {
        assert forall|c: nat| is_single(elt, c) implies single(min as nat * c) == mults(c, min as nat, max as nat) by {
            lemma_mults_point(c, min as nat);
        }
    }
//@ end
}

pub proof fn lemma_sum_two(a: NodeRef, b: NodeRef)
    ensures sum_list(seq![a, b]) =~= sumset(cnt(a), cnt(b)),
{
    let s = seq![a, b];
    assert(s.drop_last() =~= seq![a]);
    assert(seq![a].drop_last() =~= Seq::<NodeRef>::empty());
    assert(s.last() == b && seq![a].last() == a);
    reveal_with_fuel(sum_list, 3);
    assert(sum_list(seq![a]) == sumset(single(0), cnt(a)));
    lemma_sum_zero(cnt(a));
    assert(sum_list(s) == sumset(sum_list(seq![a]), cnt(b)));
}

pub proof fn lemma_mults_small(c: nat)
    ensures mults(c, 0, 0) =~= single(0),
        mults(c, 0, 1) =~= ISet::new(|x: nat| x == 0 || single(c).contains(x)),
{
    let m0 = mults(c, 0, 0);
    assert forall|x: nat| #[trigger] m0.contains(x) == single(0).contains(x) by {
        if m0.contains(x) { let j = choose|j: nat| 0 <= j <= 0 && x == #[trigger] (j * c); assert(j == 0); }
        if x == 0 { assert(x == 0 * c); }
    }
    let m1 = mults(c, 0, 1);
    assert forall|x: nat| #[trigger] m1.contains(x) == (x == 0 || x == c) by {
        if m1.contains(x) { let j = choose|j: nat| 0 <= j <= 1 && x == #[trigger] (j * c); assert(j == 0 || j == 1); }
        if x == 0 { assert(x == 0 * c); }
        if x == c { assert(x == 1 * c); }
    }
}

pub proof fn lemma_mults_point(c: nat, k: nat)
    ensures single(k * c) =~= mults(c, k, k),
{
    let m = mults(c, k, k);
    assert forall|x: nat| #[trigger] m.contains(x) == single(k * c).contains(x) by {
        if m.contains(x) { let j = choose|j: nat| k <= j <= k && x == #[trigger] (j * c); assert(j == k); }
    }
}

/// {n c} + {j c : j >= 0} = {j c : j >= n}
pub proof fn lemma_sum_exact_from(c: nat, n: nat)
    ensures sumset(single(n * c), mults_from(c, 0)) =~= mults_from(c, n),
{
    let lhs = sumset(single(n * c), mults_from(c, 0));
    let rhs = mults_from(c, n);
    assert forall|x: nat| #[trigger] lhs.contains(x) == rhs.contains(x) by {
        if lhs.contains(x) {
            let (u, v) = choose|u: nat, v: nat| #[trigger] single(n * c).contains(u) && #[trigger] mults_from(c, 0).contains(v) && x == u + v;
            let b = choose|b: nat| 0 <= b && v == #[trigger] (b * c);
            lemma_mul_is_distributive_add_other_way(c as int, n as int, b as int);
            assert(x == (n + b) * c);
            assert(n <= n + b);
        }
        if rhs.contains(x) {
            let j = choose|j: nat| n <= j && x == #[trigger] (j * c);
            let b: nat = (j - n) as nat;
            lemma_mul_is_distributive_add_other_way(c as int, n as int, b as int);
            assert(mults_from(c, 0).contains(b * c));
            assert(single(n * c).contains(n * c));
        }
    }
}

pub proof fn lemma_sum_zero(a: ISet<nat>)
    ensures sumset(single(0), a) =~= a,
{
    let lhs = sumset(single(0), a);
    assert forall|x: nat| #[trigger] lhs.contains(x) == a.contains(x) by {
        if a.contains(x) { assert(single(0).contains(0)); assert(x == 0 + x); }
    }
}

/// a list of i copies of a node with count set {c} concatenates to {i c}
pub proof fn lemma_sum_rep(s: Seq<NodeRef>, elt: NodeRef, c: nat)
    requires is_single(elt, c), forall|q: int| 0 <= q < s.len() ==> s[q] == elt,
    ensures sum_list(s) == single(s.len() * c),
    decreases s.len()
{
    if s.len() == 0 {
        assert(single(0) =~= single(0 * c));
    } else {
        lemma_sum_rep(s.drop_last(), elt, c);
        lemma_sum_single((s.len() - 1) as nat * c, c);
        lemma_mul_is_distributive_add_other_way(c as int, (s.len() - 1) as int, 1);
        assert(single(((s.len() - 1) as nat) * c + c) =~= single(s.len() * c));
    }
}


// ---- JSON array / object size encoding (parser/src/json/compiler.rs): item (sep item)* with the count set of `repeat` ----
pub struct VErr {}
pub type Result<T> = core::result::Result<T, VErr>;
//@@ struct parser/src/json/compiler.rs Compiler fields=builder

impl Compiler {
    /// ASSUMED: the separator (",") contributes no item
    #[verifier::external_body]
    fn item_separator(&mut self) -> (r: Result<NodeRef>)
        ensures final(self).builder.same_caches(&old(self).builder), r is Ok ==> cnt(r->Ok_0) == single(0),
    { unimplemented!() }
//@@ sigcheck parser/src/json/compiler.rs Compiler::item_separator :: fn item_separator(&mut self) -> Result<NodeRef>

//@@ fn parser/src/json/compiler.rs Compiler::bounded_sequence
//@ ret res
//@ rewrite R10 :: let max_elts = max_elts.map(|v| v.saturating_sub(1)); ==> let max_elts = match max_elts { Some(v) => Some(v.saturating_sub(1)), None => None };
//@ body_start
    let ghost min0 = min_elts;
    let ghost max0 = max_elts;
//@ spec
    requires old(self).builder.inv(), is_single(item, 1),
        // callers must not ask for "at most 0 items": the encoding always contains one item
        max_elts is Some ==> (max_elts->0 >= 1 && min_elts <= max_elts->0),
    ensures final(self).builder.inv(),
        // exactly the sizes max(min,1) ..= max (a minimum of 0 is handled by the caller making the whole sequence optional)
        res is Ok ==> cnt(res->Ok_0) == (match max_elts {
            Some(mx) => mults(1, if min_elts >= 1 { min_elts as nat } else { 1 }, mx as nat),
            None => mults_from(1, if min_elts >= 1 { min_elts as nat } else { 1 }) }),
//@ before let item_comma_rep = self.builder.repeat(item_comma, min_elts, max_elts);
    proof {
        lemma_sum_two(item, comma);
        lemma_sum_single(1, 0);
        assert(is_single(item_comma, 1));
    }
//@ before Ok(self.builder.join(&[item_comma_rep, item]))
    proof {
        lemma_sum_two(item_comma_rep, item);
        let mn: nat = if min0 >= 1 { (min0 - 1) as nat } else { 0 };
        match max0 {
            Some(mx) => { lemma_shift_one(mn, (mx - 1) as nat); }
            None => { lemma_shift_one_from(mn); }
        }
    }
//@ end

//@@ fn parser/src/json/compiler.rs Compiler::sequence
//@ ret res
//@ spec
    requires old(self).builder.inv(), is_single(item, 1),
    ensures res is Ok ==> cnt(res->Ok_0) == mults_from(1, 1),
//@ before let item_comma_star = self.builder.zero_or_more(item_comma);
    proof {
        lemma_sum_two(item, comma);
        lemma_sum_single(1, 0);
        assert(is_single(item_comma, 1));
    }
//@ before Ok(self.builder.join(&[item_comma_star, item]))
    proof {
        lemma_sum_two(item_comma_star, item);
        lemma_shift_one_from(0);
    }
//@ end
}

/// {j : lo <= j <= hi} + {1} = {j : lo+1 <= j <= hi+1}
pub proof fn lemma_shift_one(lo: nat, hi: nat)
    ensures sumset(mults(1, lo, hi), single(1)) =~= mults(1, lo + 1, hi + 1),
{
    let lhs = sumset(mults(1, lo, hi), single(1));
    let rhs = mults(1, lo + 1, hi + 1);
    assert forall|x: nat| #[trigger] lhs.contains(x) == rhs.contains(x) by {
        if lhs.contains(x) {
            let (u, v) = choose|u: nat, v: nat| #[trigger] mults(1, lo, hi).contains(u) && #[trigger] single(1).contains(v) && x == u + v;
            let j = choose|j: nat| lo <= j <= hi && u == #[trigger] (j * 1);
            assert(x == (j + 1) * 1);
            assert(lo + 1 <= j + 1 <= hi + 1);
        }
        if rhs.contains(x) {
            let j = choose|j: nat| lo + 1 <= j <= hi + 1 && x == #[trigger] (j * 1);
            let i: nat = (j - 1) as nat;
            assert(mults(1, lo, hi).contains(i * 1));
            assert(single(1).contains(1));
            assert(x == i * 1 + 1);
        }
    }
}
pub proof fn lemma_shift_one_from(lo: nat)
    ensures sumset(mults_from(1, lo), single(1)) =~= mults_from(1, lo + 1),
{
    let lhs = sumset(mults_from(1, lo), single(1));
    let rhs = mults_from(1, lo + 1);
    assert forall|x: nat| #[trigger] lhs.contains(x) == rhs.contains(x) by {
        if lhs.contains(x) {
            let (u, v) = choose|u: nat, v: nat| #[trigger] mults_from(1, lo).contains(u) && #[trigger] single(1).contains(v) && x == u + v;
            let j = choose|j: nat| lo <= j && u == #[trigger] (j * 1);
            assert(x == (j + 1) * 1);
            assert(lo + 1 <= j + 1);
        }
        if rhs.contains(x) {
            let j = choose|j: nat| lo + 1 <= j && x == #[trigger] (j * 1);
            let i: nat = (j - 1) as nat;
            assert(mults_from(1, lo).contains(i * 1));
            assert(single(1).contains(1));
            assert(x == i * 1 + 1);
        }
    }
}

// vacuity guard (must be REJECTED): if at_most's contract were contradictory this would verify
pub fn must_fail_at_most_plus_one(b: &mut GrammarBuilder, elt: NodeRef, n: usize) -> (r: NodeRef)
    requires old(b).inv(), is_single(elt, 1), n < 1000,
    ensures cnt(r) == mults(1, 0, (n + 1) as nat),
{
    b.at_most(elt, n)
}

} // verus!
fn main() {}
