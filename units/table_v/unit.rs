// Unit table_v: the token-table loops of TokTrie::from and TokTrie::filter (toktrie/src/toktree.rs): they establish the layout
// invariant that token / token_len / chop_tokens (unit chop_v) rely on, token(i) is exactly vocabulary entry i (resp. the entry if the
// filter allows it, else empty), and max_token_len is the longest entry.
use vstd::prelude::*;
verus! {

global size_of usize == 8;

pub type TokenId = u32;

//@@ struct toktrie/src/toktree.rs TokDesc derive=Clone,Copy
//@@ struct toktrie/src/toktree.rs TokRxInfo fields=vocab_size derive=Clone,Copy
//@@ struct toktrie/src/toktree.rs TokTrie fields=info,token_offsets,token_data,max_token_len

/// R18: `x.try_into().unwrap()` (usize -> u32) panics exactly when x does not fit; as a call whose precondition is "it fits"
pub fn usize_to_u32(x: usize) -> (r: u32)
    requires x <= u32::MAX,
    ensures r == x,
{ x as u32 }

/// R19: `std::cmp::max` on usize (generic Ord function, no vstd spec) as a local function
pub fn max_usize(a: usize, b: usize) -> (r: usize)
    ensures r == (if a >= b { a } else { b }),
{ if a >= b { a } else { b } }

/// the vocabulary as byte strings
pub open spec fn views(words: Seq<Vec<u8>>) -> Seq<Seq<u8>> { Seq::new(words.len(), |i: int| words[i]@) }

pub open spec fn total(w: Seq<Seq<u8>>, n: int) -> nat
    decreases n
{
    if n <= 0 { 0 } else { total(w, n - 1) + w[n - 1].len() }
}
pub proof fn lemma_total_mono(w: Seq<Seq<u8>>, a: int, b: int)
    requires 0 <= a <= b,
    ensures total(w, a) <= total(w, b),
    decreases b - a
{
    if a < b { lemma_total_mono(w, a, b - 1); }
}
pub open spec fn max_len(w: Seq<Seq<u8>>, n: int) -> nat
    decreases n
{
    if n <= 0 { 0 } else { let m = max_len(w, n - 1); if w[n - 1].len() > m { w[n - 1].len() } else { m } }
}

/// entry i of the table spells w[i], and the entries are packed one after the other
pub open spec fn entry_is(offs: Seq<TokDesc>, data: Seq<u8>, w: Seq<Seq<u8>>, i: int) -> bool {
    &&& offs[i].off == total(w, i)
    &&& offs[i].len == w[i].len()
    &&& offs[i].off + offs[i].len <= data.len()
    &&& data.subrange(offs[i].off as int, offs[i].off + offs[i].len) == w[i]
}
pub open spec fn table_ok(offs: Seq<TokDesc>, data: Seq<u8>, w: Seq<Seq<u8>>, n: int) -> bool {
    &&& forall|i: int| 0 <= i < n ==> #[trigger] entry_is(offs, data, w, i)
    &&& data.len() == total(w, n)
}

pub proof fn lemma_table_extend(offs: Seq<TokDesc>, data: Seq<u8>, w: Seq<Seq<u8>>, n: int, d: TokDesc, x: Seq<u8>)
    requires table_ok(offs, data, w, n), offs.len() == n, 0 <= n < w.len(), x == w[n], d.off == data.len(), d.len == x.len(),
    ensures table_ok(offs.push(d), data + x, w, n + 1),
{
    let o2 = offs.push(d);
    let d2 = data + x;
    assert forall|i: int| 0 <= i < n + 1 implies #[trigger] entry_is(o2, d2, w, i) by {
        if i < n {
            assert(entry_is(offs, data, w, i));
            assert(d2.subrange(o2[i].off as int, o2[i].off + o2[i].len) =~= data.subrange(offs[i].off as int, offs[i].off + offs[i].len));
        } else {
            assert(d2.subrange(d.off as int, d.off + d.len) =~= x);
        }
    }
}

//@@ fn toktrie/src/toktree.rs TokTrie::from
//@ span for word in words.iter() { ::: @stmt_end
//@ sig
pub fn from_table(words: &[Vec<u8>]) -> (Vec<TokDesc>, Vec<u8>, usize)
//@ wrap
    let mut token_offsets: Vec<TokDesc> = Vec::new();
    let mut token_data: Vec<u8> = Vec::new();
    let mut max_token_len = 0;
@SPAN@
    (token_offsets, token_data, max_token_len)
//@ ret res
//@ rewrite R7 :: for word in words.iter() { ==> let mut verif_i: usize = 0; while verif_i < words.len() { let word = &words[verif_i]; verif_i += 1;
//@ rewrite R18 :: word.len().try_into().unwrap() ==> usize_to_u32(word.len())
//@ rewrite R18 :: token_data.len().try_into().unwrap() ==> usize_to_u32(token_data.len())
//@ rewrite R19 :: std::cmp::max(max_token_len, word.len()) ==> max_usize(max_token_len, word.len())
//@ rewrite R8 :: let mut max_token_len = 0; ==> let mut max_token_len: usize = 0;
//@ spec
    requires
        // format limit: TokDesc stores 32-bit offsets, so all token bytes together must fit (otherwise `from` panics)
        total(views(words@), words@.len() as int) <= u32::MAX,
    ensures
        res.0@.len() == words@.len(),
        table_ok(res.0@, res.1@, views(words@), words@.len() as int),
        res.2 == max_len(views(words@), words@.len() as int),
//@ loop 1
    invariant
        total(views(words@), words@.len() as int) <= u32::MAX,
        0 <= verif_i <= words@.len(),
        token_offsets@.len() == verif_i as int,
        table_ok(token_offsets@, token_data@, views(words@), verif_i as int),
        max_token_len == max_len(views(words@), verif_i as int),
    decreases words@.len() - verif_i,
//@ before let desc = TokDesc {
    proof {
        lemma_total_mono(views(words@), verif_i as int, words@.len() as int);
        assert(word@ == views(words@)[verif_i as int - 1]);
    }
//@ after usize_to_u32(token_data.len()), };
    let ghost offs0 = token_offsets@;
    let ghost data0 = token_data@;
//@ loop_body_end 1
    proof {
        lemma_table_extend(offs0, data0, views(words@), verif_i as int - 1, desc, word@);
        assert(token_data@ =~= data0 + word@);
        assert(token_offsets@ =~= offs0.push(desc));
    }
//@ end

/// shim of SimpleVob for the filter argument (its contract is proved in svob_v: is_allowed(i) == has(i))
pub struct ShimVob { pub ghost set: Set<int> }
impl ShimVob {
    #[verifier::external_body]
    pub fn is_allowed(&self, tok: TokenId) -> (r: bool)
        ensures r == self.set.contains(tok as int),
    { unimplemented!() }
}

impl TokTrie {
    pub open spec fn spec_token(&self, idx: u32) -> Seq<u8> {
        if idx >= self.token_offsets@.len() { Seq::empty() } else {
            let d = self.token_offsets@[idx as int];
            self.token_data@.subrange(d.off as int, d.off + d.len)
        }
    }
    /// the vocabulary this table spells
    pub open spec fn toks(&self) -> Seq<Seq<u8>> { Seq::new(self.token_offsets@.len(), |i: int| self.spec_token(i as u32)) }
    /// what `from_table` / `filter_table` establish
    pub open spec fn inv(&self) -> bool {
        &&& self.token_offsets@.len() == self.info.vocab_size
        &&& self.token_data@.len() <= u32::MAX
        &&& table_ok(self.token_offsets@, self.token_data@, self.toks(), self.token_offsets@.len() as int)
    }
    /// the vocabulary after filtering: entry i if allowed, else empty
    pub open spec fn filtered(&self, f: Set<int>) -> Seq<Seq<u8>> {
        Seq::new(self.token_offsets@.len(), |i: int| if f.contains(i) { self.spec_token(i as u32) } else { Seq::empty() })
    }
    pub proof fn lemma_filtered_total(&self, f: Set<int>, n: int)
        requires 0 <= n <= self.token_offsets@.len(),
        ensures total(self.filtered(f), n) <= total(self.toks(), n),
        decreases n
    {
        if n > 0 { self.lemma_filtered_total(f, n - 1); }
    }

//@@ fn toktrie/src/toktree.rs TokTrie::vocab_size
//@ ret r
//@ spec
    ensures r == self.info.vocab_size,
//@ end

//@@ fn toktrie/src/toktree.rs TokTrie::token
//@ ret r
//@ spec
    requires self.inv(),
    ensures r@ == self.spec_token(idx),
//@ body_start
    proof { if idx < self.token_offsets@.len() { assert(entry_is(self.token_offsets@, self.token_data@, self.toks(), idx as int)); } }
//@ end

//@@ fn toktrie/src/toktree.rs TokTrie::filter
//@ span for n in 0..(self.vocab_size() as TokenId) { ::: @stmt_end
//@ sig
pub fn filter_table(&self, filter: &ShimVob) -> (Vec<TokDesc>, Vec<u8>, usize)
//@ wrap
    let mut token_offsets: Vec<TokDesc> = Vec::new();
    let mut token_data: Vec<u8> = Vec::new();
    let mut max_token_len = 0;
@SPAN@
    (token_offsets, token_data, max_token_len)
//@ ret res
//@ rewrite R18 :: b.len().try_into().unwrap() ==> usize_to_u32(b.len())
//@ rewrite R18 :: token_data.len().try_into().unwrap() ==> usize_to_u32(token_data.len())
//@ rewrite R19 :: std::cmp::max(max_token_len, b.len()) ==> max_usize(max_token_len, b.len())
//@ rewrite R8 :: let mut max_token_len = 0; ==> let mut max_token_len: usize = 0;
//@ spec
    requires self.inv(),
    ensures
        res.0@.len() == self.token_offsets@.len(),
        table_ok(res.0@, res.1@, self.filtered(filter.set), self.token_offsets@.len() as int),
        res.2 == max_len(self.filtered(filter.set), self.token_offsets@.len() as int),
        res.1@.len() <= u32::MAX,
//@ loop 1
    invariant
        self.inv(),
        token_offsets@.len() == n as int,
        table_ok(token_offsets@, token_data@, self.filtered(filter.set), n as int),
        max_token_len == max_len(self.filtered(filter.set), n as int),
//@ before let desc = TokDesc {
    proof {
        let fw = self.filtered(filter.set);
        let nn = self.token_offsets@.len() as int;
        lemma_total_mono(fw, n as int + 1, nn);
        self.lemma_filtered_total(filter.set, nn);
        assert(b@ == fw[n as int]);
    }
//@ after usize_to_u32(token_data.len()), };
    let ghost offs0 = token_offsets@;
    let ghost data0 = token_data@;
//@ loop_body_end 1
    proof {
        lemma_table_extend(offs0, data0, self.filtered(filter.set), n as int, desc, b@);
        assert(token_data@ =~= data0 + b@);
        assert(token_offsets@ =~= offs0.push(desc));
    }
//@ before (token_offsets, token_data, max_token_len)
    proof { self.lemma_filtered_total(filter.set, self.token_offsets@.len() as int); }
//@ end
}

/// a TokTrie whose table came out of from_table / filter_table for vocabulary w satisfies inv(), and token(i) == w[i]
pub proof fn lemma_table_gives_inv(t: TokTrie, w: Seq<Seq<u8>>)
    requires
        t.token_offsets@.len() == w.len(), w.len() == t.info.vocab_size, t.token_data@.len() <= u32::MAX,
        table_ok(t.token_offsets@, t.token_data@, w, w.len() as int),
    ensures t.inv(), t.toks() == w,
{
    assert forall|i: int| 0 <= i < w.len() implies t.toks()[i] == w[i] by {
        assert(entry_is(t.token_offsets@, t.token_data@, w, i));
    }
    assert(t.toks() =~= w);
}

// vacuity guards (must FAIL)
pub fn must_fail_table_offsets_all_zero(words: &[Vec<u8>])
    requires total(views(words@), words@.len() as int) <= u32::MAX, words@.len() == 2,
{
    let r = from_table(words);
    assert(r.0@[1].off == 0);
}
pub proof fn must_fail_inv_contradictory(t: TokTrie)
    requires t.inv(),
{
    assert(false);
}

} // verus!
fn main() {}
