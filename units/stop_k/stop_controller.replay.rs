//@@ append parser/src/stop_controller.rs
// Replay / differential harness for unit utf8_v: the executable form of valid_utf8_len's contract on the real function.
#[cfg(test)]
mod verif_replay_utf8 {
    use super::valid_utf8_len;

    struct Rng(u64);
    impl Rng {
        fn next(&mut self) -> u64 {
            self.0 ^= self.0 << 13;
            self.0 ^= self.0 >> 7;
            self.0 ^= self.0 << 17;
            self.0
        }
    }
    fn is_cont(b: u8) -> bool {
        b & 0b1100_0000 == 0b1000_0000
    }
    fn lead_len(b: u8) -> usize {
        if b & 0x80 == 0 { 1 } else if b & 0xE0 == 0xC0 { 2 } else if b & 0xF0 == 0xE0 { 3 } else if b & 0xF8 == 0xF0 { 4 } else { 0 }
    }
    /// (well-formed prefix?, end of the last complete character)
    fn scan(d: &[u8]) -> (bool, usize) {
        let mut i = 0;
        while i < d.len() {
            let l = lead_len(d[i]);
            if l == 0 {
                return (false, i);
            }
            for k in 1..l {
                if i + k < d.len() && !is_cont(d[i + k]) {
                    return (false, i);
                }
            }
            if i + l > d.len() {
                return (true, i);
            }
            i += l;
        }
        (true, i)
    }

    #[test]
    fn verif_replay_utf8_len() {
        let seed: u64 = std::env::var("VERIF_SEED").ok().and_then(|s| s.parse().ok()).unwrap_or(0);
        let mut rng = Rng(0x9E3779B97F4A7C15 ^ seed.wrapping_mul(0x2545F4914F6CDD1D) | 1);
        let texts = ["", "a", "é", "€", "😀", "aé€😀", "日本語テキスト", "x😀y€zé"];
        let mut n = 0;
        let mut check = |d: &[u8]| {
            let r = std::panic::catch_unwind(|| valid_utf8_len(d));
            let r = match r {
                Ok(r) => r,
                Err(_) => panic!("REPLAY-FAIL valid_utf8_len panicked on {d:?}"),
            };
            if r > d.len() {
                panic!("REPLAY-FAIL valid_utf8_len({d:?}) = {r} is past the end");
            }
            let (wf, end) = scan(d);
            if wf && (r != end || d.len() - r > 3) {
                panic!("REPLAY-FAIL valid_utf8_len({d:?}) = {r}, but the last complete character of this well-formed text ends at {end}");
            }
        };
        // every prefix of well-formed texts, and of random concatenations of them
        for t in texts {
            for k in 0..=t.len() {
                check(&t.as_bytes()[..k]);
                n += 1;
            }
        }
        for _ in 0..20000 {
            let mut s = Vec::new();
            for _ in 0..(rng.next() % 6) {
                s.extend_from_slice(texts[(rng.next() % texts.len() as u64) as usize].as_bytes());
            }
            let k = if s.is_empty() { 0 } else { (rng.next() % (s.len() as u64 + 1)) as usize };
            check(&s[..k]);
            n += 1;
        }
        // arbitrary bytes: no panic, never past the end
        for _ in 0..20000 {
            let len = (rng.next() % 12) as usize;
            let s: Vec<u8> = (0..len).map(|_| (rng.next() >> 24) as u8).collect();
            check(&s);
            n += 1;
        }
        println!("verif_replay_utf8_len: {n} cases ok");
    }
}
