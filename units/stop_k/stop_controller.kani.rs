//@@ append parser/src/stop_controller.rs
// Unit stop_k (Kani): valid_utf8_len (real fn) and the two hold-back statement spans of StopController::commit_token_u8.
#[cfg(kani)]
mod verif_kani_stop {
    use super::valid_utf8_len;

    //@@ span parser/src/stop_controller.rs holdback_rx :: rx.state = state; let chop = dfa.possible_lookahead_len(state); ::: @block_end
    //@@ span parser/src/stop_controller.rs holdback_plain :: buf.extend_from_slice(bytes); let valid_len = valid_utf8_len(&buf); ::: @block_end

    const N: usize = 7;

    fn is_cont(b: u8) -> bool {
        b & 0b1100_0000 == 0b1000_0000
    }
    /// length announced by a lead byte (0 = not a lead byte)
    fn lead_len(b: u8) -> usize {
        if b & 0b1000_0000 == 0 {
            1
        } else if b & 0b1110_0000 == 0b1100_0000 {
            2
        } else if b & 0b1111_0000 == 0b1110_0000 {
            3
        } else if b & 0b1111_1000 == 0b1111_0000 {
            4
        } else {
            0
        }
    }
    /// executable spec: `d[..n]` is a sequence of complete characters (lead + right number of continuation bytes)
    /// followed, if `allow_partial`, by a proper prefix of one character.  Returns (ok, end of last complete char).
    fn scan(d: &[u8; N], n: usize, allow_partial: bool) -> (bool, usize) {
        let mut i = 0;
        let mut steps = 0;
        while i < n && steps < N {
            steps += 1;
            let l = lead_len(d[i]);
            if l == 0 {
                return (false, i);
            }
            let mut k = 1;
            while k < l && i + k < n {
                if !is_cont(d[i + k]) {
                    return (false, i);
                }
                k += 1;
            }
            if i + l > n {
                return (allow_partial, i);
            }
            i += l;
        }
        (true, i)
    }

    fn any_buf() -> ([u8; N], usize) {
        let d: [u8; N] = kani::any();
        let n: usize = kani::any();
        kani::assume(n <= N);
        (d, n)
    }
    fn to_vec(d: &[u8; N], n: usize) -> Vec<u8> {
        let mut v = Vec::with_capacity(N);
        let mut i = 0;
        while i < N {
            if i < n {
                v.push(d[i]);
            }
            i += 1;
        }
        v
    }

    /// arbitrary bytes: no panic / underflow / out-of-bounds, result within the slice, at most 3 bytes... are NOT
    /// claimed for garbage; only r <= len.
    #[kani::proof]
    #[kani::unwind(9)]
    fn utf8_len_total() {
        let (d, n) = any_buf();
        let r = valid_utf8_len(&d[..n]);
        assert!(r <= n);
    }

    /// text that is a prefix of well-formed UTF-8: the cut never splits a character and holds back only an incomplete one
    #[kani::proof]
    #[kani::unwind(9)]
    fn utf8_len_boundary() {
        let (d, n) = any_buf();
        let (ok, end) = scan(&d, n, true);
        kani::assume(ok);
        kani::cover!(end < n && n >= 5);
        let r = valid_utf8_len(&d[..n]);
        assert!(r == end); // exactly the end of the last complete character
        assert!(n - r <= 3);
    }

    struct ShimRx {
        state: u32,
    }
    struct ShimDfa {
        chop: usize,
    }
    impl ShimDfa {
        fn possible_lookahead_len(&mut self, _state: u32) -> usize {
            self.chop
        }
    }
    struct ShimSC {
        pending_bytes: Vec<u8>,
    }
    impl ShimSC {
        fn holdback_rx(&mut self, mut buf: Vec<u8>, rx: &mut ShimRx, dfa: &mut ShimDfa, state: u32) -> Vec<u8> {
            /*@@paste holdback_rx*/
            buf
        }
        fn holdback_plain(&mut self, mut buf: Vec<u8>, bytes: &[u8]) -> Vec<u8> {
            /*@@paste holdback_plain*/
            buf
        }
    }

    /// stop-regex branch: the controller releases a prefix of the buffered text that (a) ends on a character boundary,
    /// (b) leaves at least `chop` bytes (what a live stop candidate may still claim) unreleased, (c) holds back at most
    /// one incomplete character more than that, and (d) loses / invents nothing: released ++ pending == buffered.
    #[kani::proof]
    #[kani::unwind(9)]
    fn stop_holdback_rx() {
        let (d, n) = any_buf();
        let (ok, _) = scan(&d, n, true);
        kani::assume(ok);
        let chop: usize = kani::any();
        kani::assume(chop <= N + 1);
        let mut sc = ShimSC { pending_bytes: Vec::new() };
        let mut rx = ShimRx { state: 0 };
        let mut dfa = ShimDfa { chop };
        let ret = sc.holdback_rx(to_vec(&d, n), &mut rx, &mut dfa, 7);
        kani::cover!(chop > 0 && chop < n && ret.len() > 0 && ret.len() + chop < n);
        let limit = n - if chop < n { chop } else { n };
        assert!(rx.state == 7);
        assert!(ret.len() <= limit); // (b)
        assert!(limit - ret.len() <= 3); // (c)
        assert!(ret.len() + sc.pending_bytes.len() == n); // (d) lengths
        let i: usize = kani::any();
        kani::assume(i < n);
        if i < ret.len() {
            assert!(ret[i] == d[i]);
        } else {
            assert!(sc.pending_bytes[i - ret.len()] == d[i]);
        }
        // (a) released text is a sequence of complete characters
        let (ok2, end2) = scan(&d, ret.len(), false);
        assert!(ok2 && end2 == ret.len());
    }

    #[kani::proof]
    #[kani::unwind(9)]
    fn stop_holdback_plain() {
        let (d, n) = any_buf();
        let split: usize = kani::any();
        kani::assume(split <= n);
        let (ok, end) = scan(&d, n, true);
        kani::assume(ok);
        // buf = already pending bytes d[..split], token bytes = d[split..n]
        let mut sc = ShimSC { pending_bytes: Vec::new() };
        let ret = sc.holdback_plain(to_vec(&d, split), &d[split..n]);
        kani::cover!(split > 0 && split < n && end < n);
        assert!(ret.len() == end);
        assert!(ret.len() + sc.pending_bytes.len() == n);
        let i: usize = kani::any();
        kani::assume(i < n);
        if i < ret.len() {
            assert!(ret[i] == d[i]);
        } else {
            assert!(sc.pending_bytes[i - ret.len()] == d[i]);
        }
    }

    // vacuity guard (must FAIL): claims nothing is ever held back
    #[kani::proof]
    #[kani::unwind(9)]
    fn mustfail_utf8_len_is_len() {
        let (d, n) = any_buf();
        let (ok, _) = scan(&d, n, true);
        kani::assume(ok);
        assert!(valid_utf8_len(&d[..n]) == n);
    }
}
