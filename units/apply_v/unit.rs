// Unit apply_v: TokenParser::apply_token (parser/src/tokenparser.rs), whole function: every successfully committed token appends
// exactly its decode_raw bytes to llm_bytes (through the grammar-prefix phase and the normal phase alike), so that
// llm_bytes == decode(llm_tokens) - the per-token byte accounting that TokenParser::rollback (tokrollback_k) relies on - and
// backtracking removes whole tokens together with exactly their bytes.
use vstd::prelude::*;

// R3: logging macros defined empty; format!(..) only feeds error messages (dropped)
macro_rules! infoln { ($($t:tt)*) => {}; }
macro_rules! warn { ($($t:tt)*) => {}; }
macro_rules! format { ($($t:tt)*) => { "" }; }

verus! {

global size_of usize == 8;

pub type TokenId = u32;

//@@ include common/tokdec.vrs

pub struct VErr {}
pub type Result<T> = core::result::Result<T, VErr>;
pub enum StopReason { NotStopped, InternalError, ParserTooComplex, Other }
pub struct ParserError {}

pub struct ShimTrie { pub vocab: usize }
impl ShimTrie {
    pub fn vocab_size(&self) -> (r: usize) ensures r == self.vocab { self.vocab }
    /// ASSUMED: decode_raw concatenates the per-token bytes
    #[verifier::external_body]
    pub fn decode_raw(&self, tokens: &[TokenId]) -> (r: Vec<u8>)
        ensures r@ == dec(tokens@), tokens@.len() == 1 ==> r@.len() <= 0x1_0000_0000,
    { unimplemented!() }
    /// token_len(t) == |decode_raw([t])| (proved in chop_v as spec_token_len), at most 2^32
    #[verifier::external_body]
    pub fn token_len(&self, t: TokenId) -> (r: usize)
        ensures r == tbytes(t).len(), 1 <= r <= 0x1_0000_0000,
    { unimplemented!() }
}
pub struct ShimEnv { pub trie: ShimTrie }
impl ShimEnv {
    pub fn tok_trie(&self) -> (r: &ShimTrie) ensures *r == self.trie { &self.trie }
}
/// `len` = number of bytes the parser currently holds (ParserState::bytes); they are a suffix part of llm_bytes
/// `forced` = the bytes the parser has already pushed but no token has claimed yet (Parser::currently_forced_bytes)
pub struct ShimParser { pub ghost len: int, pub ghost extra_backtrack: Seq<int>, pub ghost forced: Seq<u8> }
/// length of the "\xFF[id]" spelling of a token id (TokTrie::decode_as_special)
pub uninterp spec fn special_len(t: u32) -> nat;
/// the parser matches the token by id against forced "\xFF[id]" bytes (ParserState::apply_token, branch
/// `bidx == 0 && self.bytes[applied_idx] == SPECIAL_TOKEN_MARKER`): the token is not spelled with the marker itself, the pending
/// forced bytes are
pub open spec fn matched_by_id(forced: Seq<u8>, tok_bytes: Seq<u8>) -> bool {
    forced.len() > 0 && forced[0] == 0xff && !(tok_bytes.len() > 0 && tok_bytes[0] == 0xff)
}
impl ShimParser {
    #[verifier::external_body]
    pub fn get_error(&self) -> (r: Option<ParserError>) { unimplemented!() }
    /// Parser::apply_token: the Earley side; returns the number of bytes to backtrack (0 = none), bounded by what it was given so far
    #[verifier::external_body]
    /// ASSUMED (Earley side): on success the parser holds the old bytes plus the new ones minus what it asks to backtrack, never
    /// more than it has
    pub fn apply_token(&mut self, tok_bytes: &[u8], tok_id: TokenId) -> (r: Result<usize>)
        ensures final(self).extra_backtrack == old(self).extra_backtrack,
            !matched_by_id(old(self).forced, tok_bytes@) ==>
                (r is Ok ==> r->Ok_0 <= old(self).len + tok_bytes@.len() && final(self).len == old(self).len + tok_bytes@.len() - r->Ok_0),
            // matched by id against the forced "\xFF[id]" bytes: the token then occupies that spelling in the parser; no backtracking
            matched_by_id(old(self).forced, tok_bytes@) ==>
                (r is Ok ==> r->Ok_0 == 0 && final(self).len == old(self).len + special_len(tok_id)),
    { unimplemented!() }
    #[verifier::external_body]
    pub fn currently_forced_bytes(&self) -> (r: &[u8])
        ensures r@ == self.forced,
    { unimplemented!() }
    #[verifier::external_body]
    pub fn additional_backtrack(&mut self, n: usize)
        ensures final(self).extra_backtrack == old(self).extra_backtrack.push(n as int), final(self).len == old(self).len - n,
    { unimplemented!() }
}
pub struct InferenceCapabilities { pub backtrack: bool }

pub struct TokenParser {
    pub token_env: ShimEnv,
    pub parser: ShimParser,
    pub inference_caps: InferenceCapabilities,
    pub llm_tokens: Vec<TokenId>,
    pub llm_bytes: Vec<u8>,
    pub grm_prefix: Vec<u8>,
    pub eos_without_bytes: Vec<usize>,
    pub forced_by_id: Vec<usize>,
    pub had_backtrack: bool,
    pub stop_reason: StopReason,
    pub ghost cleared: nat,
}

/// R16: slice != Vec through PartialEq, as a call
#[verifier::external_body]
pub fn slice_eq_vec(a: &[u8], b: &Vec<u8>) -> (r: bool)
    ensures r == (a@ == b@),
{ unimplemented!() }
/// R18: checked integer conversions (`x.try_into().unwrap()` panics exactly when x does not fit)
pub fn usize_to_isize(x: usize) -> (r: isize) requires x <= isize::MAX, ensures r == x, { x as isize }
pub fn isize_to_usize(x: isize) -> (r: usize) requires x >= 0, ensures r == x, { x as usize }
/// R19
pub fn min_usize(a: usize, b: usize) -> (r: usize) ensures r == (if a <= b { a } else { b }), { if a <= b { a } else { b } }
/// R26: `s.first() == Some(&c)` / `s.first() != Some(&c)` on a byte slice
pub fn first_is(s: &[u8], c: u8) -> (r: bool) ensures r == (s@.len() > 0 && s@[0] == c), { s.len() > 0 && s[0] == c }
/// R24: `v.retain(|&idx| idx < n)` on the index list of zero-byte EOS tokens
#[verifier::external_body]
pub fn retain_below(v: &mut Vec<usize>, n: usize)
    ensures forall|i: usize| final(v)@.contains(i) <==> (old(v)@.contains(i) && i < n),
{ unimplemented!() }

/// suffix sums of token byte lengths: the last k tokens
pub open spec fn tail_bytes(t: Seq<u32>, k: int) -> int { dec(t.subrange(t.len() - k, t.len() as int)).len() as int }

pub proof fn lemma_tail_step(t: Seq<u32>, k: int)
    requires 0 <= k < t.len(),
    ensures tail_bytes(t, k + 1) == tail_bytes(t, k) + tbytes(t[t.len() - k - 1]).len(),
{
    let n = t.len() as int;
    let a = t.subrange(n - k - 1, n);
    assert(a =~= seq![t[n - k - 1]] + t.subrange(n - k, n));
    lemma_dec_concat(seq![t[n - k - 1]], t.subrange(n - k, n));
    lemma_dec_single(t[n - k - 1]);
}

pub proof fn lemma_tail_le(t: Seq<u32>, k: int)
    requires 0 <= k <= t.len(),
    ensures tail_bytes(t, k) <= dec(t).len(),
{
    let n = t.len() as int;
    assert(t =~= t.take(n - k) + t.subrange(n - k, n));
    lemma_dec_concat(t.take(n - k), t.subrange(n - k, n));
}

impl TokenParser {
    /// what every public entry point maintains while the engine is not in an error stop: the bytes are exactly what the tokens spell
    /// (tokens recorded as zero-byte EOS are not expected here: see the precondition of apply_token)
    pub open spec fn tinv(&self) -> bool { self.llm_bytes@ == dec(self.llm_tokens@) }
    /// the parser's bytes are part of llm_bytes (everything after the grammar prefix)
    pub open spec fn pinv(&self) -> bool { self.parser.len <= self.llm_bytes@.len() }

    #[verifier::external_body]
    pub fn clear_caches(&mut self)
        ensures final(self).cleared == old(self).cleared + 1, final(self).llm_tokens == old(self).llm_tokens, final(self).llm_bytes == old(self).llm_bytes,
            final(self).grm_prefix == old(self).grm_prefix, final(self).eos_without_bytes == old(self).eos_without_bytes, final(self).token_env == old(self).token_env,
            final(self).parser == old(self).parser, final(self).inference_caps == old(self).inference_caps, final(self).forced_by_id == old(self).forced_by_id,
    { unimplemented!() }
    #[verifier::external_body]
    pub fn stop(&mut self, warn: &str, reason: StopReason) -> (e: VErr)
        ensures final(self).stop_reason == reason, final(self).llm_tokens == old(self).llm_tokens, final(self).llm_bytes == old(self).llm_bytes,
            final(self).cleared == old(self).cleared, final(self).parser == old(self).parser, final(self).token_env == old(self).token_env,
            final(self).eos_without_bytes == old(self).eos_without_bytes, final(self).forced_by_id == old(self).forced_by_id,
    { unimplemented!() }
    #[verifier::external_body]
    pub fn stop_for_parser_error(&mut self, pref: &str, err: ParserError) -> (e: VErr)
        ensures final(self).llm_tokens == old(self).llm_tokens, final(self).llm_bytes == old(self).llm_bytes,
            final(self).cleared == old(self).cleared, final(self).parser == old(self).parser, final(self).token_env == old(self).token_env,
            final(self).eos_without_bytes == old(self).eos_without_bytes, final(self).forced_by_id == old(self).forced_by_id,
    { unimplemented!() }

//@@ fn parser/src/tokenparser.rs TokenParser::apply_token
//@ ret res
//@ rewrite R19 :: std::cmp::min(tok_bytes.len(), prefix_len) ==> min_usize(tok_bytes.len(), prefix_len)
//@ rewrite R16 :: self.grm_prefix[0..self.llm_bytes.len()] != self.llm_bytes ==> !slice_eq_vec(&self.grm_prefix[0..self.llm_bytes.len()], &self.llm_bytes)
//@ rewrite R18 :: backtrack_bytes0.try_into().unwrap() ==> usize_to_isize(backtrack_bytes0)
//@ rewrite R18 :: (-backtrack_bytes).try_into().unwrap() ==> isize_to_usize(-backtrack_bytes)
//@ rewrite R24 :: self.eos_without_bytes.retain(|&idx| idx < token_ptr); ==> retain_below(&mut self.eos_without_bytes, token_ptr);
//@ rewrite R24 :: self.forced_by_id.retain(|&idx| idx < token_ptr); ==> retain_below(&mut self.forced_by_id, token_ptr);
//@ rewrite R26 :: tok_bytes.first() != Some(&toktrie::TokTrie::SPECIAL_TOKEN_MARKER) ==> !first_is(tok_bytes, 0xff)
//@ rewrite R26 :: self.parser.currently_forced_bytes().first() == Some(&toktrie::TokTrie::SPECIAL_TOKEN_MARKER) ==> first_is(self.parser.currently_forced_bytes(), 0xff)
//@ spec
    requires
        old(self).tinv(), old(self).pinv(),
        forall|i: usize| old(self).eos_without_bytes@.contains(i) ==> i < old(self).llm_tokens@.len(),
        old(self).llm_tokens@.len() < 0x7fff_ffff, old(self).llm_bytes@.len() < 0x7fff_0000_0000,
        // histories that already contain a token matched by id against forced bytes are outside this contract (pinv does not hold for them)
        old(self).forced_by_id@.len() == 0,
    ensures
        final(self).cleared == old(self).cleared + 1,
        // a token is recorded in forced_by_id exactly when the parser matched it by id against forced "\xFF[id]" bytes, and then it
        // occupies that spelling in the parser (this is what TokenParser::rollback later asks the parser to drop: unit tprollback_v)
        (res is Ok && final(self).forced_by_id@.len() > 0) ==>
            final(self).forced_by_id@ == seq![old(self).llm_tokens@.len() as usize]
            && final(self).llm_tokens@ == old(self).llm_tokens@.push(tok_id)
            && final(self).parser.len == old(self).parser.len + special_len(tok_id)
            && old(self).parser.forced.len() > 0 && old(self).parser.forced[0] == 0xff,
        // ... and in every other successful commit without backtracking the parser received exactly the bytes llm_bytes received
        (res is Ok && final(self).forced_by_id@.len() == 0 && final(self).llm_tokens@.len() == old(self).llm_tokens@.len() + 1) ==>
            final(self).parser.len - old(self).parser.len <= final(self).llm_bytes@.len() - old(self).llm_bytes@.len()
            && (old(self).grm_prefix@.len() <= old(self).llm_bytes@.len() ==>
                final(self).parser.len - old(self).parser.len == final(self).llm_bytes@.len() - old(self).llm_bytes@.len()),
        // an id outside the vocabulary is refused before anything is recorded
        tok_id >= old(self).token_env.trie.vocab ==> res is Err && final(self).llm_tokens == old(self).llm_tokens,
        // success keeps bytes == decode(tokens)
        res is Ok ==> final(self).tinv(),
        // whole tokens only: the new history is a prefix of (old history + this token) ...
        res is Ok ==> final(self).llm_tokens@.len() <= old(self).llm_tokens@.len() + 1
            && final(self).llm_tokens@ == old(self).llm_tokens@.push(tok_id).take(final(self).llm_tokens@.len() as int),
        // ... and without backtracking it is all of it, with exactly this token's bytes appended
        (res is Ok && final(self).llm_tokens@.len() == old(self).llm_tokens@.len() + 1) ==>
            final(self).llm_bytes@ == old(self).llm_bytes@ + tbytes(tok_id),
        // zero-byte EOS records are only ever dropped, and stay inside the history
        res is Ok ==> forall|i: usize| final(self).eos_without_bytes@.contains(i) ==> old(self).eos_without_bytes@.contains(i) && i < final(self).llm_tokens@.len(),
        // the parser never holds bytes the token parser dropped (when backtracking is passed on to it)
        (res is Ok && final(self).forced_by_id@.len() == 0 && (final(self).inference_caps.backtrack || final(self).llm_tokens@.len() == old(self).llm_tokens@.len() + 1)) ==> final(self).pinv(),
//@ body_start
    let ghost t0 = self.llm_tokens@;
    let ghost b0 = self.llm_bytes@;
    let ghost tt = t0.push(tok_id);
    proof {
        lemma_dec_single(tok_id);
        assert(tt.drop_last() =~= t0);
        assert(dec(tt) == dec(t0) + tbytes(tok_id));
    }
//@ after let tok_bytes = trie.decode_raw(&[tok_id]);
    let ghost tb = tok_bytes@;
    proof {
        assert((&[tok_id])@ =~= seq![tok_id]);
        assert(tb == tbytes(tok_id));
    }
//@ before return Ok(0);
    proof {
        assert(self.llm_bytes@ =~= b0 + tb);
        assert(self.llm_tokens@ =~= tt);
    }
//@ before if let Some(err) = self.parser.get_error()
    proof {
        assert(self.llm_bytes@ + tok_bytes@ =~= b0 + tb);
    }
//@ after self.llm_bytes.extend_from_slice(tok_bytes);
    proof {
        assert(self.llm_bytes@ =~= b0 + tb);
        assert(self.llm_bytes@ == dec(tt));
        assert(self.llm_tokens@ =~= tt);
        assert(tok_bytes@.len() <= tb.len());
        assert(backtrack_bytes0 <= dec(tt).len());
    }
//@ loop 1
    invariant
        self.llm_tokens@ == tt, self.llm_bytes@ == dec(tt), tt.len() >= 1, tt.len() < 0x8000_0000,
        0 <= backtrack_tokens <= tt.len(),
        0 < backtrack_bytes0 <= dec(tt).len(), dec(tt).len() < 0x8000_0000_0000,
        backtrack_bytes == backtrack_bytes0 - tail_bytes(tt, backtrack_tokens as int),
        backtrack_tokens == 0 || tail_bytes(tt, backtrack_tokens as int - 1) < backtrack_bytes0,
        tail_bytes(tt, backtrack_tokens as int) <= dec(tt).len(),
        *trie == self.token_env.trie,
    ensures backtrack_bytes <= 0 || backtrack_tokens == tt.len(),
    decreases tt.len() - backtrack_tokens,
//@ before let tok = self.llm_tokens[tok_off - 1];
    proof {
        lemma_tail_step(tt, backtrack_tokens as int);
        lemma_tail_le(tt, backtrack_tokens as int + 1);
    }
//@ before assert!(backtrack_tokens > 0);
    proof {
        assert(tt.subrange(tt.len() - 0, tt.len() as int) =~= Seq::<u32>::empty());
        assert(tail_bytes(tt, 0) == 0);
        if backtrack_tokens == tt.len() {
            // all tokens consumed: tail_bytes(tt, |tt|) == |dec(tt)| >= backtrack_bytes0
            assert(tt.subrange(0, tt.len() as int) =~= tt);
        }
    }
//@ before return Ok(backtrack_tokens);
    proof {
        if self.forced_by_id@.len() > 0 { assert(self.forced_by_id@.contains(self.forced_by_id@[0])); }
    }
//@ before let byte_ptr
    proof {
        let k = backtrack_tokens as int;
        assert(full_backtrack_bytes == tail_bytes(tt, k));
        lemma_dec_concat(tt.take(tt.len() - k), tt.subrange(tt.len() - k, tt.len() as int));
        assert(tt =~= tt.take(tt.len() - k) + tt.subrange(tt.len() - k, tt.len() as int));
        assert(dec(tt).take(dec(tt).len() - tail_bytes(tt, k)) =~= dec(tt.take(tt.len() - k)));
    }
//@ end
}

// vacuity guards (must FAIL)
pub fn must_fail_apply_never_backtracks(tp: &mut TokenParser, t: TokenId)
    requires old(tp).tinv(), old(tp).pinv(), old(tp).llm_tokens@.len() < 0x7fff_ffff, old(tp).llm_bytes@.len() < 0x7fff_0000_0000,
        forall|i: usize| old(tp).eos_without_bytes@.contains(i) ==> i < old(tp).llm_tokens@.len(), old(tp).forced_by_id@.len() == 0,
{
    let n = tp.llm_tokens.len();
    let r = tp.apply_token(t);
    assert(r is Ok ==> tp.llm_tokens@.len() == n + 1);
}
pub proof fn must_fail_invariants_contradictory(tp: TokenParser)
    requires tp.tinv(), tp.pinv(),
{
    assert(false);
}

} // verus!
fn main() {}
