//@@ append parser/src/earley/parser.rs
// Unit probe_k (Kani path B): the real text of ParserState::forced_byte (lexer hint + 256-byte probe loop) against
// "the reported byte is the ONLY byte the byte-level recognizer accepts here".  NextByte is derivre's real enum.
#[cfg(kani)]
mod verif_kani_probe {
    use derivre::NextByte;

    //@@ fnspan parser/src/earley/parser.rs ps_forced_byte ParserState::forced_byte

    macro_rules! debug {
        ($($t:tt)*) => {};
    }

    struct LexSt {
        lexer_state: u32,
    }
    struct ShimLexer {
        hint: NextByte,
    }
    impl ShimLexer {
        fn next_byte(&mut self, _st: u32) -> NextByte {
            self.hint
        }
    }
    /// the byte-level acceptor at the current position: a set of 256 bits; the stack depth of speculative pushes
    struct ShimState {
        allowed: [u64; 4],
        accepting: bool,
        lexer: ShimLexer,
        depth: usize,
        speculative: usize,
        pushes: usize,
    }
    impl ShimState {
        fn is_accepting(&mut self) -> bool {
            self.accepting
        }
        fn lexer_state(&self) -> LexSt {
            LexSt { lexer_state: 0 }
        }
        fn lexer_mut(&mut self) -> &mut ShimLexer {
            &mut self.lexer
        }
        fn run_speculative<T>(&mut self, _lbl: &str, f: impl FnOnce(&mut Self) -> T) -> T {
            self.speculative += 1;
            let d0 = self.depth;
            let r = f(self);
            self.depth = d0;
            r
        }
        fn has(&self, b: u8) -> bool {
            self.allowed[(b / 64) as usize] & (1u64 << (b % 64)) != 0
        }
        /*@@paste ps_forced_byte*/
    }
    struct ParserRecognizer<'a> {
        state: &'a mut ShimState,
    }
    impl ParserRecognizer<'_> {
        fn try_push_byte(&mut self, b: u8) -> bool {
            self.state.pushes += 1;
            if self.state.has(b) {
                self.state.depth += 1;
                true
            } else {
                false
            }
        }
        fn pop_bytes(&mut self, n: usize) {
            assert!(n <= self.state.depth); // the probe never pops more than it pushed
            self.state.depth -= n;
        }
    }

    fn any_hint() -> NextByte {
        match kani::any::<u8>() % 6 {
            0 => NextByte::ForcedByte(kani::any()),
            1 => NextByte::ForcedEOI,
            2 => NextByte::SomeBytes0,
            3 => NextByte::SomeBytes1(kani::any()),
            4 => {
                // ASSUMED about derivre: the two example bytes of SomeBytes2 are distinct (with a == b the probe would report
                // "more than one option" for a uniquely forced byte)
                let a: u8 = kani::any();
                let b: u8 = kani::any();
                kani::assume(a != b);
                NextByte::SomeBytes2([a, b])
            }
            _ => NextByte::Dead,
        }
    }

    /// Some(b)  =>  b is accepted and no other byte is; None  =>  the state is accepting or not exactly one byte is accepted.
    /// The recognizer stack is back where it was.  (ASSUMED about the lexer hint: ForcedByte(b) means b is the only accepted byte.)
    #[kani::proof]
    #[kani::unwind(258)]
    fn forced_byte_unique() {
        let allowed: [u64; 4] = kani::any();
        let hint = any_hint();
        let mut st = ShimState { allowed, accepting: kani::any(), lexer: ShimLexer { hint }, depth: 0, speculative: 0, pushes: 0 };
        if let NextByte::ForcedByte(fb) = hint {
            // derivre soundness assumption for the fast path
            let mut only = [0u64; 4];
            only[(fb / 64) as usize] = 1u64 << (fb % 64);
            kani::assume(allowed[0] == only[0] && allowed[1] == only[1] && allowed[2] == only[2] && allowed[3] == only[3]);
        }
        let accepting = st.accepting;
        let r = st.forced_byte();
        kani::cover!(r.is_some() && st.pushes >= 256);
        kani::cover!(r.is_none() && !accepting && st.pushes >= 256);
        let count = allowed[0].count_ones() + allowed[1].count_ones() + allowed[2].count_ones() + allowed[3].count_ones();
        match r {
            Some(b) => {
                assert!(!accepting);
                assert!(st.has(b) && count == 1);
            }
            None => assert!(accepting || count != 1),
        }
        assert!(st.depth == 0);
    }

    /// quick-tier part (no probing on this path): with the lexer hint ForcedByte(b) the answer is Some(b) exactly when the state is
    /// NOT accepting - in an accepting state end-of-sequence is an alternative, so nothing is forced - and the recognizer is not touched
    #[kani::proof]
    #[kani::unwind(258)]
    fn forced_byte_hint_respects_accepting() {
        let fb: u8 = kani::any();
        let mut allowed = [0u64; 4];
        allowed[(fb / 64) as usize] = 1u64 << (fb % 64);
        let mut st = ShimState { allowed, accepting: kani::any(), lexer: ShimLexer { hint: NextByte::ForcedByte(fb) }, depth: 0, speculative: 0, pushes: 0 };
        let accepting = st.accepting;
        let r = st.forced_byte();
        kani::cover!(r.is_some());
        kani::cover!(r.is_none());
        match r {
            Some(b) => assert!(!accepting && b == fb),
            None => assert!(accepting),
        }
        assert!(st.pushes == 0 && st.depth == 0);
    }
    #[kani::proof]
    #[kani::unwind(258)]
    fn mustfail_forced_byte_hint_always() {
        let fb: u8 = kani::any();
        let mut allowed = [0u64; 4];
        allowed[(fb / 64) as usize] = 1u64 << (fb % 64);
        let mut st = ShimState { allowed, accepting: kani::any(), lexer: ShimLexer { hint: NextByte::ForcedByte(fb) }, depth: 0, speculative: 0, pushes: 0 };
        assert!(st.forced_byte().is_some());
    }

    // vacuity guard (must FAIL): claims a byte is reported whenever at least one byte is accepted
    #[kani::proof]
    #[kani::unwind(258)]
    fn mustfail_forced_byte_any() {
        let allowed: [u64; 4] = kani::any();
        kani::assume(allowed[0] != 0);
        let mut st = ShimState { allowed, accepting: false, lexer: ShimLexer { hint: NextByte::SomeBytes0 }, depth: 0, speculative: 0, pushes: 0 };
        assert!(st.forced_byte().is_some());
    }
}
