// Unit tprollback_v: TokenParser::{rollback, reset, stopped, check_initialized, consume_token} (parser/src/tokenparser.rs), whole
// functions, for histories of ANY length: rolling back n tokens drops exactly the bytes those tokens contributed (zero for an EOS
// accepted at the end of the grammar, recorded in eos_without_bytes), asks the parser to drop the same number of bytes, and leaves
// llm_bytes == decode(llm_tokens minus zero-byte EOS); a normal stop is undone, an error stop is not.
use vstd::prelude::*;

// R3: logging macro defined empty; anyhow's ensure! = early `return Err(..)` without the message
macro_rules! infoln { ($($t:tt)*) => {}; }
macro_rules! ensure { ($c:expr, $($t:tt)*) => { if !($c) { return Err(VErr {}); } }; }

verus! {

global size_of usize == 8;

pub type TokenId = u32;

//@@ include common/tokdec.vrs

pub struct VErr {}
pub type Result<T> = core::result::Result<T, VErr>;

#[derive(PartialEq, Eq, Clone, Copy, Structural)]
pub enum StopReason { NotStopped, EndOfSentence, NoExtension, NoExtensionBias, MaxTokensTotal, InternalError, ParserTooComplex, Other }
impl StopReason {
    /// api.rs StopReason::is_ok (a `matches!` over the four non-error reasons)
    pub fn is_ok(&self) -> (r: bool)
        ensures r == (*self == StopReason::NotStopped || *self == StopReason::EndOfSentence || *self == StopReason::NoExtension || *self == StopReason::NoExtensionBias),
    {
        match self {
            StopReason::NotStopped => true, StopReason::EndOfSentence => true, StopReason::NoExtension => true,
            StopReason::NoExtensionBias => true, _ => false,
        }
    }
}

/// bytes of the history when the tokens at the indices in `z` contributed nothing
pub open spec fn decz(s: Seq<u32>, z: Seq<usize>) -> Seq<u8>
    decreases s.len()
{
    if s.len() == 0 { Seq::empty() } else {
        decz(s.drop_last(), z) + (if z.contains((s.len() - 1) as usize) { Seq::<u8>::empty() } else { tbytes(s.last()) })
    }
}
/// bytes contributed by the tokens from index `from` on
pub open spec fn dropz(s: Seq<u32>, z: Seq<usize>, from: int, upto: int) -> nat
    decreases upto - from
{
    if upto <= from { 0 } else {
        dropz(s, z, from, upto - 1) + (if z.contains((upto - 1) as usize) { 0nat } else { tbytes(s[upto - 1]).len() })
    }
}
/// bytes the tokens from `from` on occupy IN THE PARSER: a token matched by id against forced "\xFF[id]" bytes (index recorded
/// in `f`) occupies that spelling, not its own bytes
pub uninterp spec fn special_len(t: u32) -> nat;
pub open spec fn dropp(s: Seq<u32>, z: Seq<usize>, f: Seq<usize>, from: int, upto: int) -> nat
    decreases upto - from
{
    if upto <= from { 0 } else {
        dropp(s, z, f, from, upto - 1) + (if z.contains((upto - 1) as usize) { 0nat } else if f.contains((upto - 1) as usize) { special_len(s[upto - 1]) } else { tbytes(s[upto - 1]).len() })
    }
}
pub proof fn lemma_decz_take(s: Seq<u32>, z: Seq<usize>, m: int)
    requires 0 <= m <= s.len(),
    ensures decz(s, z).len() == decz(s.take(m), z).len() + dropz(s, z, m, s.len() as int),
        decz(s.take(m), z) == decz(s, z).take(decz(s, z).len() - dropz(s, z, m, s.len() as int)),
    decreases s.len() - m
{
    if m == s.len() {
        assert(s.take(m) =~= s);
        assert(decz(s, z).take(decz(s, z).len() as int) =~= decz(s, z));
    } else {
        let n = s.len() as int;
        lemma_decz_take(s.drop_last(), z, m);
        assert(s.drop_last().take(m) =~= s.take(m));
        lemma_dropz_prefix(s, z, m, n - 1);
        let last: Seq<u8> = if z.contains((n - 1) as usize) { Seq::<u8>::empty() } else { tbytes(s.last()) };
        assert(decz(s, z) == decz(s.drop_last(), z) + last);
        assert(decz(s.take(m), z) =~= decz(s, z).take(decz(s, z).len() - dropz(s, z, m, n)));
    }
}
/// dropz only looks at s[from..upto]
pub proof fn lemma_dropz_prefix(s: Seq<u32>, z: Seq<usize>, from: int, upto: int)
    requires 0 <= from <= upto < s.len(),
    ensures dropz(s.drop_last(), z, from, upto) == dropz(s, z, from, upto),
    decreases upto - from
{
    if from < upto { lemma_dropz_prefix(s, z, from, upto - 1); }
}
/// indices >= m are irrelevant for a history of length m
pub proof fn lemma_decz_filter(s: Seq<u32>, z1: Seq<usize>, z2: Seq<usize>)
    requires forall|i: usize| i < s.len() ==> (z1.contains(i) <==> z2.contains(i)),
    ensures decz(s, z1) == decz(s, z2),
    decreases s.len()
{
    if s.len() > 0 { lemma_decz_filter(s.drop_last(), z1, z2); }
}

pub struct ShimTrie {}
impl ShimTrie {
    /// token_len(t) == |decode_raw([t])| (proved in chop_v as spec_token_len), at most 2^32
    #[verifier::external_body]
    pub fn token_len(&self, t: TokenId) -> (r: usize)
        ensures r == tbytes(t).len(), 1 <= r <= 0x1_0000_0000,
    { unimplemented!() }
    /// TokTrie::decode_as_special: "\xFF[id]" (only its length matters here: at most 13 bytes)
    #[verifier::external_body]
    pub fn decode_as_special(&self, t: TokenId) -> (r: Vec<u8>)
        ensures r@.len() == special_len(t), 4 <= r@.len() <= 13,
    { unimplemented!() }
}
/// `raw_accepting` = what the Earley parser itself answers (it has already been advanced over forced bytes);
/// the engine's answer (TokenParser::is_accepting, `tp_accepting`) additionally requires that no forced bytes are pending
pub struct ShimParser { pub ghost rolled: Seq<int>, pub ghost eos_scans: nat, pub ghost will_fail: bool, pub ghost raw_accepting: bool }
impl ShimParser {
    /// Parser::rollback (its effect on the parser state is proved in rollback_v); may fail (parser error, grammar cannot roll back)
    #[verifier::external_body]
    pub fn rollback(&mut self, n_bytes: usize) -> (r: Result<()>)
        ensures r is Ok <==> !old(self).will_fail,
            r is Ok ==> final(self).rolled == old(self).rolled.push(n_bytes as int), r is Err ==> final(self).rolled == old(self).rolled,
            final(self).eos_scans == old(self).eos_scans,
    { unimplemented!() }
    #[verifier::external_body]
    pub fn scan_eos(&mut self) -> (r: bool)
        ensures final(self).rolled == old(self).rolled,
    { unimplemented!() }
    /// Parser::is_accepting - the raw Earley answer; NOT what decides whether EOS may be committed
    #[verifier::external_body]
    pub fn is_accepting(&mut self) -> (r: bool)
        ensures r == old(self).raw_accepting, *final(self) == *old(self),
    { unimplemented!() }
    #[verifier::external_body]
    pub fn log_row_infos(&mut self, lbl: &str)
        ensures *final(self) == *old(self),
    { unimplemented!() }
}

pub struct TokenParser {
    pub trie: ShimTrie,
    pub parser: ShimParser,
    pub stop_reason: StopReason,
    pub is_fresh: bool,
    pub had_rollback: bool,
    pub max_tokens_total: usize,
    pub llm_tokens: Vec<TokenId>,
    pub llm_bytes: Vec<u8>,
    pub eos_without_bytes: Vec<usize>,
    pub forced_by_id: Vec<usize>,
    pub eos_tokens: Vec<TokenId>,
    pub ghost cleared: nat,
    /// what TokenParser::is_accepting reports in this state: parser accepting AND no forced bytes pending (its formula is
    /// checked on the real text in unit stopdec_k)
    pub ghost tp_accepting: bool,
}

/// R24: `v.retain(|&idx| idx < n)`
#[verifier::external_body]
pub fn retain_below(v: &mut Vec<usize>, n: usize)
    ensures forall|i: usize| final(v)@.contains(i) <==> (old(v)@.contains(i) && i < n),
{ unimplemented!() }
/// R25: `v.contains(&x)` on Vec<usize> / Vec<u32>
#[verifier::external_body]
pub fn vec_contains_usize(v: &Vec<usize>, x: usize) -> (r: bool) ensures r == v@.contains(x), { unimplemented!() }
#[verifier::external_body]
pub fn vec_contains_u32(v: &Vec<TokenId>, x: TokenId) -> (r: bool) ensures r == v@.contains(x), { unimplemented!() }

impl TokenParser {
    /// bytes == what the tokens spell, zero-byte EOS entries excluded; recorded indices are inside the history
    pub open spec fn zinv(&self) -> bool {
        &&& self.llm_bytes@ == decz(self.llm_tokens@, self.eos_without_bytes@)
        &&& forall|i: usize| self.eos_without_bytes@.contains(i) ==> i < self.llm_tokens@.len()
    }

    pub fn tok_trie(&self) -> (r: &ShimTrie) { &self.trie }
    #[verifier::external_body]
    pub fn error_message(&self) -> (r: Option<String>) { unimplemented!() }
    #[verifier::external_body]
    pub fn clear_caches(&mut self)
        ensures final(self).cleared == old(self).cleared + 1, final(self).llm_tokens == old(self).llm_tokens, final(self).llm_bytes == old(self).llm_bytes,
            final(self).eos_without_bytes == old(self).eos_without_bytes, final(self).forced_by_id == old(self).forced_by_id, final(self).parser == old(self).parser, final(self).stop_reason == old(self).stop_reason,
            final(self).max_tokens_total == old(self).max_tokens_total, final(self).had_rollback == old(self).had_rollback, final(self).is_fresh == old(self).is_fresh,
    { unimplemented!() }

//@@ fn parser/src/tokenparser.rs TokenParser::stopped
//@ ret r
//@ spec
    ensures r == (self.stop_reason != StopReason::NotStopped),
//@ end

//@@ fn parser/src/tokenparser.rs TokenParser::check_initialized
//@ ret r
//@ spec
    ensures r is Ok <==> (!self.is_fresh && self.stop_reason == StopReason::NotStopped),
//@ end

//@@ fn parser/src/tokenparser.rs TokenParser::rollback
//@ ret res
//@ rewrite R7 :: for (idx, tok) in self.llm_tokens.iter().enumerate().skip(new_len) { ==> let mut verif_i: usize = new_len; while verif_i < self.llm_tokens.len() { let idx = verif_i; let tok = &self.llm_tokens[verif_i]; verif_i += 1;
//@ rewrite R25 :: self.eos_without_bytes.contains(&idx) ==> vec_contains_usize(&self.eos_without_bytes, idx)
//@ rewrite R25 :: self.forced_by_id.contains(&idx) ==> vec_contains_usize(&self.forced_by_id, idx)
//@ rewrite R24 :: self.eos_without_bytes.retain(|&idx| idx < new_len); ==> retain_below(&mut self.eos_without_bytes, new_len);
//@ rewrite R24 :: self.forced_by_id.retain(|&idx| idx < new_len); ==> retain_below(&mut self.forced_by_id, new_len);
//@ rewrite R8 :: let mut bytes_to_drop = 0; ==> let mut bytes_to_drop: usize = 0;
//@ rewrite R8 :: let mut parser_bytes_to_drop = 0; ==> let mut parser_bytes_to_drop: usize = 0;
//@ spec
    requires old(self).zinv(), old(self).llm_tokens@.len() < 0x7fff_ffff,
    ensures
        n_tokens == 0 ==> res is Ok && *final(self) == *old(self),
        // accepted exactly when: enough tokens, not fresh, not stopped by an error, and the parser agrees
        res is Ok && n_tokens > 0 ==> {
            let new_len = old(self).llm_tokens@.len() - n_tokens;
            &&& n_tokens <= old(self).llm_tokens@.len()
            &&& final(self).llm_tokens@ == old(self).llm_tokens@.take(new_len)
            &&& final(self).zinv()
            // the parser was asked to drop exactly the bytes the dropped tokens occupy in it: what they had contributed to
            // llm_bytes, except that a token matched by id against forced "\xFF[id]" bytes occupies that spelling
            &&& final(self).parser.rolled == old(self).parser.rolled.push(
                    dropp(old(self).llm_tokens@, old(self).eos_without_bytes@, old(self).forced_by_id@, new_len, old(self).llm_tokens@.len() as int) as int)
            &&& (forall|i: usize| new_len <= i < old(self).llm_tokens@.len() ==> !old(self).forced_by_id@.contains(i)) ==>
                    final(self).parser.rolled == old(self).parser.rolled.push(old(self).llm_bytes@.len() - final(self).llm_bytes@.len())
            // no record about a dropped token survives
            &&& forall|i: usize| final(self).forced_by_id@.contains(i) <==> (old(self).forced_by_id@.contains(i) && i < new_len)
            &&& old(self).llm_bytes@.len() - final(self).llm_bytes@.len() == dropz(old(self).llm_tokens@, old(self).eos_without_bytes@, new_len, old(self).llm_tokens@.len() as int)
            // a normal stop is undone; an error stop makes rollback fail
            &&& final(self).stop_reason == StopReason::NotStopped
            &&& (old(self).stop_reason == StopReason::NotStopped || old(self).stop_reason == StopReason::EndOfSentence
                 || old(self).stop_reason == StopReason::NoExtension || old(self).stop_reason == StopReason::NoExtensionBias)
            &&& !old(self).is_fresh
            &&& final(self).cleared == old(self).cleared + 1
        },
        // ... and it IS accepted then (rollback does not fail for any other reason)
        (0 < n_tokens <= old(self).llm_tokens@.len() && !old(self).is_fresh && !old(self).parser.will_fail
            && (old(self).stop_reason == StopReason::NotStopped || old(self).stop_reason == StopReason::EndOfSentence
                 || old(self).stop_reason == StopReason::NoExtension || old(self).stop_reason == StopReason::NoExtensionBias)) ==> res is Ok,
        // a failed rollback leaves the history alone
        res is Err ==> final(self).llm_tokens == old(self).llm_tokens && final(self).llm_bytes == old(self).llm_bytes
            && final(self).eos_without_bytes == old(self).eos_without_bytes && final(self).parser.rolled == old(self).parser.rolled
            && final(self).forced_by_id == old(self).forced_by_id,
//@ body_start
    let ghost t0 = self.llm_tokens@;
    let ghost f0 = self.forced_by_id@;
    let ghost z0 = self.eos_without_bytes@;
    let ghost b0 = self.llm_bytes@;
//@ loop 1
    invariant
        self.llm_tokens@ == t0, self.eos_without_bytes@ == z0, self.llm_bytes@ == b0, self.forced_by_id@ == f0, t0.len() < 0x7fff_ffff,
        new_len <= verif_i <= t0.len(),
        bytes_to_drop == dropz(t0, z0, new_len as int, verif_i as int),
        bytes_to_drop <= (verif_i - new_len) * 0x1_0000_0000,
        parser_bytes_to_drop == dropp(t0, z0, f0, new_len as int, verif_i as int),
        parser_bytes_to_drop <= (verif_i - new_len) * 0x1_0000_0000,
        (forall|i: usize| new_len <= i < verif_i ==> !f0.contains(i)) ==> parser_bytes_to_drop == bytes_to_drop,
    decreases t0.len() - verif_i,
//@ before ensure!(bytes_to_drop
    proof { lemma_decz_take(t0, z0, new_len as int); }
//@ after self.clear_caches();
    proof {
        lemma_decz_filter(t0.take(new_len as int), z0, self.eos_without_bytes@);
        assert(self.llm_bytes@ =~= decz(t0.take(new_len as int), z0));
    }
//@ end

    /// zero-byte EOS entries only matter where they are: without any, decz is dec
    pub proof fn lemma_decz_none(s: Seq<u32>, z: Seq<usize>)
        requires forall|i: usize| z.contains(i) ==> i >= s.len(),
        ensures decz(s, z) == dec(s),
        decreases s.len()
    {
        if s.len() > 0 { Self::lemma_decz_none(s.drop_last(), z); }
    }

    /// TokenParser::apply_token with the contract proved in unit apply_v (restated over this shim): for a history without zero-byte
    /// EOS, success keeps bytes == decode(tokens) and records no zero-byte entry
    #[verifier::external_body]
    pub fn apply_token(&mut self, tok_id: TokenId) -> (res: Result<usize>)
        requires old(self).llm_bytes@ == dec(old(self).llm_tokens@), old(self).llm_tokens@.len() < 0x7fff_ffff, old(self).llm_bytes@.len() < 0x7fff_0000_0000,
        ensures
            res is Ok ==> final(self).llm_bytes@ == dec(final(self).llm_tokens@) && final(self).llm_tokens@.len() <= old(self).llm_tokens@.len() + 1,
            forall|i: usize| final(self).eos_without_bytes@.contains(i) ==> old(self).eos_without_bytes@.contains(i) && i < final(self).llm_tokens@.len(),
            final(self).is_fresh == old(self).is_fresh, final(self).parser.rolled == old(self).parser.rolled,
    { unimplemented!() }
    #[verifier::external_body]
    pub fn is_accepting(&mut self) -> (r: bool)
        ensures r == old(self).tp_accepting, final(self).tp_accepting == old(self).tp_accepting,
            final(self).llm_tokens == old(self).llm_tokens, final(self).llm_bytes == old(self).llm_bytes, final(self).eos_without_bytes == old(self).eos_without_bytes,
            final(self).parser.rolled == old(self).parser.rolled,
    { unimplemented!() }
    #[verifier::external_body]
    pub fn stop(&mut self, warn: &str, reason: StopReason) -> (e: VErr)
        ensures final(self).stop_reason == reason, final(self).llm_tokens == old(self).llm_tokens, final(self).llm_bytes == old(self).llm_bytes,
            final(self).eos_without_bytes == old(self).eos_without_bytes,
    { unimplemented!() }
    #[verifier::external_body]
    pub fn anyhow_error(&self) -> (e: VErr) { unimplemented!() }

//@@ fn parser/src/tokenparser.rs TokenParser::consume_token
//@ ret res
//@ rewrite R25 :: self.eos_tokens.contains(&token) ==> vec_contains_u32(&self.eos_tokens, token)
//@ spec
    requires
        old(self).zinv(), old(self).llm_tokens@.len() < 0x7fff_fff0, old(self).llm_bytes@.len() < 0x7fff_0000_0000,
        // no token is committed after an EOS that was accepted at the end of the grammar (the interfaces stop there: check_stop)
        old(self).eos_without_bytes@.len() == 0,
    ensures
        // the byte accounting survives every successful commit, and at most one token is recorded
        res is Ok ==> final(self).zinv() && final(self).llm_tokens@.len() <= old(self).llm_tokens@.len() + 1,
        // an EOS accepted at the end of the grammar is recorded with zero bytes
        res is Ok && final(self).eos_without_bytes@.len() > 0 ==>
            final(self).llm_tokens@ == old(self).llm_tokens@.push(token) && final(self).llm_bytes@ == old(self).llm_bytes@
            && final(self).eos_without_bytes@ == seq![old(self).llm_tokens@.len() as usize] && old(self).eos_tokens@.contains(token)
            // ... and only when the ENGINE reports the state as accepting (no forced text pending), not merely the raw parser
            && old(self).tp_accepting,
        // not callable when fresh or stopped, or when the token budget is used up
        (old(self).is_fresh || old(self).stop_reason != StopReason::NotStopped || old(self).max_tokens_total == 0) ==> res is Err,
//@ body_start
    let ghost t0 = self.llm_tokens@;
    let ghost z0 = self.eos_without_bytes@;
    proof {
        Self::lemma_decz_none(t0, z0);
        assert forall|i: usize| z0.contains(i) implies false by { }
    }
//@ after self.llm_tokens.push(token);
    proof {
        let t1 = self.llm_tokens@;
        let z1 = self.eos_without_bytes@;
        assert(z1 =~= seq![t0.len() as usize]);
        assert(z1[0] == t0.len() as usize);
        assert(z1.contains(t0.len() as usize));
        assert(t1.drop_last() =~= t0);
        // the earlier part is unaffected by the new entry
        assert forall|i: usize| i < t0.len() implies (z0.contains(i) <==> z1.contains(i)) by {
            if z1.contains(i) { let j = choose|j: int| 0 <= j < z1.len() && z1[j] == i; }
        }
        lemma_decz_filter(t0, z0, z1);
        assert(decz(t1, z1) =~= decz(t0, z1));
        assert forall|i: usize| z1.contains(i) implies i < t1.len() by {
            let j = choose|j: int| 0 <= j < z1.len() && z1[j] == i;
        }
    }
//@ after let apply_res = self.apply_token(token);
    proof {
        Self::lemma_decz_none(self.llm_tokens@, self.eos_without_bytes@);
        if self.eos_without_bytes@.len() > 0 {
            assert(self.eos_without_bytes@.contains(self.eos_without_bytes@[0]));
            assert(z0.contains(self.eos_without_bytes@[0]));
        }
    }
//@ end

//@@ fn parser/src/tokenparser.rs TokenParser::reset
//@ ret res
//@ spec
    requires old(self).zinv(), old(self).llm_tokens@.len() < 0x7fff_ffff,
    ensures res is Ok && old(self).llm_tokens@.len() > 0 ==> final(self).llm_tokens@.len() == 0 && final(self).llm_bytes@.len() == 0,
//@ end
}

// vacuity guards (must FAIL)
pub fn must_fail_rollback_never_ok(tp: &mut TokenParser, n: usize)
    requires old(tp).zinv(), old(tp).llm_tokens@.len() < 0x7fff_ffff, n > 0,
{
    let r = tp.rollback(n);
    assert(r is Err);
}
pub proof fn must_fail_zinv_contradictory(tp: TokenParser)
    requires tp.zinv(), tp.eos_without_bytes@.len() > 0,
{
    assert(false);
}

} // verus!
fn main() {}
