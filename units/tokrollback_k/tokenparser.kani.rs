//@@ append parser/src/tokenparser.rs
// Unit tokrollback_k (Kani path B): the real text of TokenParser::{rollback, clear_caches, check_initialized, stopped,
// error_message} compiled as methods of a shim struct that has the same field names/types for the fields they touch.
// Ghost history `contrib[i]` = bytes that llm_tokens[i] added to llm_bytes / to the parser when it was committed.
#[cfg(kani)]
mod verif_kani_tokrollback {
    use crate::api::StopReason;
    use toktrie::TokenId;

    // R3: anyhow's ensure!(c, fmt..) is `if !c { return Err(anyhow!(fmt..)) }`; the message (format! + backtrace capture,
    // which dominate CBMC's cost) is dropped: the pasted methods resolve `ensure!` and `Result` to these local definitions.
    struct ShimError;
    type Result<T> = core::result::Result<T, ShimError>;
    macro_rules! infoln {
        ($($t:tt)*) => {};
    }
    macro_rules! ensure {
        ($c:expr, $($t:tt)*) => {
            if !($c) {
                return Err(ShimError);
            }
        };
    }

    //@@ fnspan parser/src/tokenparser.rs tp_rollback TokenParser::rollback
    //@@ fnspan parser/src/tokenparser.rs tp_clear_caches TokenParser::clear_caches
    //@@ fnspan parser/src/tokenparser.rs tp_check_initialized TokenParser::check_initialized
    //@@ fnspan parser/src/tokenparser.rs tp_stopped TokenParser::stopped
    //@@ fnspan parser/src/tokenparser.rs tp_error_message TokenParser::error_message
    //@@ fnspan parser/src/tokenparser.rs tp_consume_token TokenParser::consume_token

    const VOCAB: usize = 4;
    const MAXTOK: usize = 3;

    struct ShimTrie {
        lens: [usize; VOCAB],
    }
    impl ShimTrie {
        fn token_len(&self, t: TokenId) -> usize {
            self.lens[t as usize]
        }
        /// "\xFF[id]": five bytes for the two-digit ids of this shim (only the length is used by rollback)
        fn decode_as_special(&self, _t: TokenId) -> Vec<u8> {
            vec![0xff, b'[', b'0', b'0', b']']
        }
    }
    /// stands for Parser: records the rollback request; may fail (parser error state)
    struct ShimParser {
        nbytes: usize,
        fail: bool,
        calls: usize,
        last_arg: usize,
        eos_scanned: usize,
    }
    impl ShimParser {
        /// the parser may consume an EOS itself (gen() terminated by EOS); nondeterministic here
        fn scan_eos(&mut self) -> bool {
            let b: bool = kani::any();
            if b {
                self.eos_scanned += 1;
            }
            b
        }
        fn log_row_infos(&mut self, _lbl: &str) {}
        fn rollback(&mut self, n: usize) -> Result<()> {
            self.calls += 1;
            self.last_arg = n;
            if self.fail || n > self.nbytes {
                return Err(ShimError);
            }
            self.nbytes -= n;
            Ok(())
        }
    }
    struct ShimTP {
        trie: ShimTrie,
        parser: ShimParser,
        is_accepting_cache: Option<bool>,
        ff_tokens_cache: Option<(Vec<TokenId>, Vec<u8>)>,
        stop_reason: StopReason,
        error_message: Option<String>,
        max_tokens_total: usize,
        llm_tokens: Vec<TokenId>,
        eos_without_bytes: Vec<usize>,
        forced_by_id: Vec<usize>,
        llm_bytes: Vec<u8>,
        is_fresh: bool,
        had_rollback: bool,
        // --- only used by consume_token ---
        eos_tokens: Vec<TokenId>,
        accepting: bool,
        apply_fails: bool,
        /// ghost: bytes each entry of llm_tokens contributed (TokHist)
        contrib: Vec<usize>,
    }
    impl ShimTP {
        fn tok_trie(&self) -> &ShimTrie {
            &self.trie
        }
        fn is_accepting(&mut self) -> bool {
            self.accepting
        }
        fn stop(&mut self, _warn: &str, reason: StopReason) -> ShimError {
            self.stop_reason = reason;
            ShimError
        }
        fn anyhow_error(&self) -> ShimError {
            ShimError
        }
        /// ASSUMED effect of the real apply_token (tokenparser.rs, Earley side): the token is recorded, and on success its
        /// decode_raw bytes (= token_len) are appended to llm_bytes and to the parser
        fn apply_token(&mut self, tok_id: TokenId) -> Result<usize> {
            self.clear_caches();
            self.llm_tokens.push(tok_id);
            if self.apply_fails {
                self.contrib.push(0);
                return Err(self.stop("", StopReason::ParserTooComplex));
            }
            let l = self.trie.token_len(tok_id);
            let mut i = 0;
            while i < 3 {
                if i < l {
                    self.llm_bytes.push(0);
                }
                i += 1;
            }
            self.parser.nbytes += l;
            self.contrib.push(l);
            Ok(0)
        }
        /*@@paste tp_consume_token*/
        /*@@paste tp_rollback*/
        /*@@paste tp_clear_caches*/
        /*@@paste tp_check_initialized*/
        /*@@paste tp_stopped*/
        /*@@paste tp_error_message*/
    }

    fn any_stop_reason() -> StopReason {
        match kani::any::<u8>() % 6 {
            0 => StopReason::NotStopped,
            1 => StopReason::EndOfSentence,
            2 => StopReason::NoExtension,
            3 => StopReason::NoExtensionBias,
            4 => StopReason::MaxTokensTotal,
            _ => StopReason::InternalError,
        }
    }

    /// a Vec<u8> of symbolic length `total` with a CONCRETE capacity (symbolic allocation sizes blow CBMC up)
    fn bytes_of_len<const NTOK: usize>(total: usize) -> Vec<u8> {
        let mut v = Vec::with_capacity(3 * NTOK + 1);
        let mut i = 0;
        while i < 3 * NTOK {
            if i < total {
                v.push(0u8);
            }
            i += 1;
        }
        v
    }

    /// Build a state that satisfies the TokHist invariant for `ntok` committed tokens (ntok concrete: Vec capacities
    /// must be concrete under CBMC), everything else symbolic; run the real rollback(n); check the accounting.
    fn run<const NTOK: usize>() {
        let lens: [usize; VOCAB] = kani::any();
        kani::assume(lens[0] >= 1 && lens[0] <= 3 && lens[1] >= 1 && lens[1] <= 3 && lens[2] >= 1 && lens[2] <= 3 && lens[3] >= 1 && lens[3] <= 3);
        let mut toks = Vec::with_capacity(NTOK);
        let mut contrib = [0usize; NTOK];
        let mut zero_idx = Vec::with_capacity(NTOK);
        let mut forced_idx = Vec::with_capacity(NTOK);
        // bytes each token occupies in the parser: its own, or the 5-byte "\xFF[id]" spelling when it was matched by id
        let mut pcontrib = [0usize; NTOK];
        let mut forced_flag = [false; NTOK];
        let mut ptotal = 0usize;
        let mut total = 0usize;
        let mut i = 0;
        while i < NTOK {
            let t: u32 = kani::any();
            kani::assume((t as usize) < VOCAB);
            toks.push(t);
            // an EOS accepted without bytes (consume_token's accepting branch) contributes 0; everything that went
            // through apply_token (incl. an EOS named by the grammar) contributes token_len bytes
            let zero: bool = kani::any();
            if zero {
                zero_idx.push(i);
                contrib[i] = 0;
            } else {
                contrib[i] = lens[t as usize];
                if kani::any() {
                    forced_idx.push(i);
                    forced_flag[i] = true;
                    pcontrib[i] = 5;
                } else {
                    pcontrib[i] = contrib[i];
                }
            }
            total += contrib[i];
            ptotal += pcontrib[i];
            i += 1;
        }
        let extra_parser_bytes: usize = 0;
        let mut tp = ShimTP {
            trie: ShimTrie { lens },
            parser: ShimParser { nbytes: ptotal + extra_parser_bytes, fail: kani::any(), calls: 0, last_arg: 0, eos_scanned: 0 },
            is_accepting_cache: if kani::any() { Some(kani::any()) } else { None },
            ff_tokens_cache: if kani::any() { Some((Vec::new(), Vec::new())) } else { None },
            stop_reason: any_stop_reason(),
            error_message: None,
            max_tokens_total: kani::any(),
            llm_tokens: toks,
            eos_without_bytes: zero_idx,
            forced_by_id: forced_idx,
            llm_bytes: bytes_of_len::<NTOK>(total),
            is_fresh: kani::any(),
            had_rollback: false,
            eos_tokens: vec![3],
            accepting: kani::any(),
            apply_fails: kani::any(),
            contrib: contrib.to_vec(),
        };
        let n: usize = kani::any();
        kani::assume(n <= NTOK + 1);
        let old_tokens: [u32; NTOK] = core::array::from_fn(|i| tp.llm_tokens[i]);
        let old_stop = tp.stop_reason;
        let old_max = tp.max_tokens_total;
        let parser_fail = tp.parser.fail;
        let fresh = tp.is_fresh;

        let r = tp.rollback(n);

        kani::cover!(r.is_ok());
        kani::cover!(r.is_err());
        if n == 0 {
            assert!(r.is_ok() && tp.parser.calls == 0 && tp.llm_tokens.len() == NTOK && tp.stop_reason == old_stop);
            return;
        }
        let legal = n <= NTOK && !fresh && old_stop.is_ok() && !parser_fail;
        assert!(r.is_ok() == legal);
        if r.is_ok() {
            let new_len = NTOK - n;
            // bytes dropped = exactly what the dropped tokens contributed
            let mut want = 0usize;
            let mut pwant = 0usize;
            let mut j = new_len;
            while j < NTOK {
                want += contrib[j];
                pwant += pcontrib[j];
                j += 1;
            }
            // the parser is asked to drop what the tokens occupy in it, llm_bytes loses what they contributed to it
            assert!(tp.parser.calls == 1 && tp.parser.last_arg == pwant);
            assert!(tp.llm_bytes.len() == total - want);
            assert!(tp.parser.nbytes == ptotal - pwant);
            assert!(tp.llm_tokens.len() == new_len);
            let k: usize = kani::any();
            kani::assume(k < NTOK);
            if k < new_len {
                assert!(tp.llm_tokens[k] == old_tokens[k]);
                // the zero-byte record of kept tokens is unchanged
                assert!(tp.eos_without_bytes.contains(&k) == (contrib[k] == 0));
                assert!(tp.forced_by_id.contains(&k) == forced_flag[k]);
            } else {
                assert!(!tp.eos_without_bytes.contains(&k));
                assert!(!tp.forced_by_id.contains(&k));
            }
            assert!(tp.is_accepting_cache.is_none() && tp.ff_tokens_cache.is_none());
            assert!(tp.stop_reason == StopReason::NotStopped); // a normal stop is undone
            assert!(tp.max_tokens_total == old_max.saturating_add(n));
            assert!(tp.had_rollback);
        } else {
            // nothing observable about tokens/bytes changes when the call is rejected
            assert!(tp.llm_tokens.len() == NTOK && tp.llm_bytes.len() == total);
        }
    }

    #[kani::proof]
    #[kani::unwind(11)]
    fn tok_rollback_n0() {
        run::<0>();
    }
    #[kani::proof]
    #[kani::unwind(11)]
    fn tok_rollback_n1() {
        run::<1>();
    }
    #[kani::proof]
    #[kani::unwind(11)]
    fn tok_rollback_n2() {
        run::<2>();
    }
    #[kani::proof]
    #[kani::unwind(11)]
    fn tok_rollback_n3() {
        run::<3>();
    }

    /// consume_token keeps the TokHist invariant that rollback relies on: a token is recorded in eos_without_bytes exactly when
    /// it contributed no bytes, |llm_bytes| = parser bytes = sum of contributions, an EOS the parser scanned is not recorded
    #[kani::proof]
    #[kani::unwind(11)]
    fn consume_keeps_hist() {
        let lens: [usize; VOCAB] = kani::any();
        kani::assume(lens[0] >= 1 && lens[0] <= 3 && lens[1] >= 1 && lens[1] <= 3 && lens[2] >= 1 && lens[2] <= 3 && lens[3] >= 1 && lens[3] <= 3);
        let mut tp = ShimTP {
            trie: ShimTrie { lens },
            parser: ShimParser { nbytes: 0, fail: false, calls: 0, last_arg: 0, eos_scanned: 0 },
            is_accepting_cache: None,
            ff_tokens_cache: None,
            stop_reason: StopReason::NotStopped,
            error_message: None,
            max_tokens_total: kani::any(),
            llm_tokens: Vec::with_capacity(2),
            eos_without_bytes: Vec::with_capacity(2),
            forced_by_id: Vec::new(),
            llm_bytes: Vec::with_capacity(8),
            is_fresh: false,
            had_rollback: false,
            eos_tokens: vec![3],
            accepting: kani::any(),
            apply_fails: kani::any(),
            contrib: Vec::with_capacity(2),
        };
        let tok: u32 = kani::any();
        kani::assume((tok as usize) < VOCAB);
        let budget = tp.max_tokens_total;
        let r = tp.consume_token(tok);
        kani::cover!(r.is_ok() && tp.llm_tokens.len() == 1 && tp.eos_without_bytes.len() == 1);
        kani::cover!(r.is_ok() && tp.llm_tokens.len() == 1 && tp.llm_bytes.len() > 0);
        kani::cover!(r.is_ok() && tp.llm_tokens.len() == 0);
        if budget == 0 {
            assert!(r.is_err() && tp.llm_tokens.len() == 0 && tp.stop_reason == StopReason::MaxTokensTotal);
            return;
        }
        if r.is_ok() {
            // TokHist, stated on the concrete state: a recorded token contributes 0 bytes iff it is listed in
            // eos_without_bytes, token_len bytes otherwise; llm_bytes and the parser hold exactly the sum
            let mut total = 0usize;
            let mut j = 0;
            while j < tp.llm_tokens.len() {
                if !tp.eos_without_bytes.contains(&j) {
                    total += lens[tp.llm_tokens[j] as usize];
                } else {
                    assert!(tp.eos_tokens.contains(&tp.llm_tokens[j])); // only EOS tokens are ever recorded as byte-less
                }
                j += 1;
            }
            assert!(tp.llm_bytes.len() == total && tp.parser.nbytes == total);
            assert!(tp.llm_tokens.len() <= 1 && tp.eos_without_bytes.len() <= tp.llm_tokens.len());
        }
        if tp.parser.eos_scanned > 0 && r.is_ok() {
            assert!(tp.llm_tokens.len() == 0); // scanned by the parser: not recorded as an llm token
        }
    }

    // vacuity guard: must FAIL (claims a rollback never changes the token count)
    #[kani::proof]
    #[kani::unwind(11)]
    fn mustfail_tok_rollback_keeps_tokens() {
        let mut tp = ShimTP {
            trie: ShimTrie { lens: [1; VOCAB] },
            parser: ShimParser { nbytes: 2, fail: false, calls: 0, last_arg: 0, eos_scanned: 0 },
            is_accepting_cache: None,
            ff_tokens_cache: None,
            stop_reason: StopReason::NotStopped,
            error_message: None,
            max_tokens_total: 10,
            llm_tokens: vec![1, 2],
            eos_without_bytes: Vec::new(),
            forced_by_id: Vec::new(),
            llm_bytes: vec![0, 0],
            is_fresh: false,
            had_rollback: false,
            eos_tokens: vec![3],
            accepting: false,
            apply_fails: false,
            contrib: vec![1, 1],
        };
        let _ = tp.rollback(1);
        assert!(tp.llm_tokens.len() == 2);
    }
}
