//@@ append parser/src/tokenparser.rs
// Unit tokrollback_k, second file: token id range checks of TokenParser::validate_tokens_raw (whole real fn) and apply_token (the
// statements in front of the first use of the id): an id outside the vocabulary is reported as an InternalError stop before the
// parser or the trie is asked anything about it; ids inside are passed on.
#[cfg(kani)]
mod verif_kani_tokids {
    use crate::api::StopReason;
    use toktrie::TokenId;

    struct ShimError;
    type Result<T> = core::result::Result<T, ShimError>;
    macro_rules! infoln {
        ($($t:tt)*) => {};
    }
    macro_rules! ensure {
        ($c:expr, $($t:tt)*) => {
            if !($c) {
                return Err(ShimError);
            }
        };
    }
    // the message text is irrelevant here and format! dominates CBMC's cost
    macro_rules! format {
        ($($t:tt)*) => {
            String::new()
        };
    }

    //@@ fnspan parser/src/tokenparser.rs tp_validate_tokens_raw TokenParser::validate_tokens_raw
    //@@ fnspan parser/src/tokenparser.rs tp_check_initialized TokenParser::check_initialized
    //@@ fnspan parser/src/tokenparser.rs tp_stopped TokenParser::stopped
    //@@ fnspan parser/src/tokenparser.rs tp_error_message TokenParser::error_message
    //@@ span parser/src/tokenparser.rs apply_head :: @after fn apply_token(&mut self, tok_id: TokenId) -> Result<usize> { ::: @before self.llm_tokens.push(tok_id);

    struct ShimTrie {
        vocab: usize,
    }
    impl ShimTrie {
        fn vocab_size(&self) -> usize {
            self.vocab
        }
    }
    struct ShimEnv {
        trie: ShimTrie,
    }
    impl ShimEnv {
        fn tok_trie(&self) -> &ShimTrie {
            &self.trie
        }
    }
    struct ShimParser {
        asked: usize,
        max_seen: u32,
    }
    impl ShimParser {
        fn validate_tokens(&mut self, tokens: &[TokenId]) -> usize {
            self.asked += 1;
            let mut i = 0;
            while i < tokens.len() {
                if tokens[i] > self.max_seen {
                    self.max_seen = tokens[i];
                }
                i += 1;
            }
            let n: usize = kani::any();
            kani::assume(n <= tokens.len());
            n
        }
    }
    struct ShimTP {
        token_env: ShimEnv,
        parser: ShimParser,
        stop_reason: StopReason,
        error_message: Option<String>,
        is_fresh: bool,
        cleared: usize,
    }
    impl ShimTP {
        fn tok_trie(&self) -> &ShimTrie {
            self.token_env.tok_trie()
        }
        fn stop(&mut self, _warn: &str, reason: StopReason) -> ShimError {
            self.stop_reason = reason;
            ShimError
        }
        fn clear_caches(&mut self) {
            self.cleared += 1;
        }
        /*@@paste tp_validate_tokens_raw*/
        /*@@paste tp_check_initialized*/
        /*@@paste tp_stopped*/
        /*@@paste tp_error_message*/
        /// the head of apply_token; Ok(0) stands for "went on to use the token"
        fn apply_token_head(&mut self, tok_id: TokenId) -> Result<usize> {
            /*@@paste apply_head*/
            Ok(0)
        }
    }
    fn fresh() -> ShimTP {
        let vocab: usize = kani::any();
        kani::assume(vocab >= 1 && vocab <= u32::MAX as usize);
        ShimTP {
            token_env: ShimEnv { trie: ShimTrie { vocab } },
            parser: ShimParser { asked: 0, max_seen: 0 },
            stop_reason: StopReason::NotStopped,
            error_message: None,
            is_fresh: false,
            cleared: 0,
        }
    }

    /// every vocabulary size, every pair of ids
    #[kani::proof]
    #[kani::unwind(4)]
    fn validate_tokens_id_range() {
        let mut tp = fresh();
        let vocab = tp.token_env.trie.vocab;
        let toks: [TokenId; 2] = kani::any();
        let r = tp.validate_tokens_raw(&toks);
        let in_range = (toks[0] as usize) < vocab && (toks[1] as usize) < vocab;
        if in_range {
            assert!(r.is_ok() && tp.parser.asked == 1 && tp.stop_reason == StopReason::NotStopped);
            assert!((tp.parser.max_seen as usize) < vocab);
        } else {
            // reported, the engine is stopped with an internal error, the parser never sees the id
            assert!(r.is_err() && tp.parser.asked == 0 && tp.stop_reason == StopReason::InternalError);
        }
        kani::cover!(in_range);
        kani::cover!(!in_range);
    }

    #[kani::proof]
    fn apply_token_id_range() {
        let mut tp = fresh();
        let vocab = tp.token_env.trie.vocab;
        let t: TokenId = kani::any();
        let r = tp.apply_token_head(t);
        if (t as usize) < vocab {
            assert!(r.is_ok() && tp.stop_reason == StopReason::NotStopped);
        } else {
            assert!(r.is_err() && tp.stop_reason == StopReason::InternalError);
        }
        assert!(tp.cleared == 1);
    }

    // vacuity guard (must FAIL): claims every id is accepted
    #[kani::proof]
    fn mustfail_apply_token_any_id() {
        let mut tp = fresh();
        let t: TokenId = kani::any();
        assert!(tp.apply_token_head(t).is_ok());
    }
}
