//@@ append toktrie/src/tokenv.rs
// Unit marker_k (Kani path A): parse_numeric_token (the "[id]" part of the \xFF[id] spelling of a token) on every byte string of up
// to 5 bytes: it answers Some((n, id)) exactly for "[" decimal "]" at the start of the text (std's u32 parser also admits one
// leading '+'), n is the length of that spelling, id its value; it never panics and never reads a token id out of other text.
#[cfg(kani)]
mod verif_kani_marker {
    use super::parse_numeric_token;

    const N: usize = 5;

    #[kani::proof]
    #[kani::unwind(8)]
    fn numeric_token_exact() {
        let s: [u8; N] = kani::any();
        let n: usize = kani::any();
        kani::assume(1 <= n && n <= N);
        let r = parse_numeric_token(&s[..n]);
        // reference: position of the first ']'
        let mut p = n;
        let mut i = 0;
        while i < N {
            if i < n && s[i] == b']' && p == n {
                p = i;
            }
            i += 1;
        }
        // digits between '[' and ']' (an optional leading '+' is what std's parser admits)
        let mut all_digits = true;
        let mut val: u32 = 0;
        let mut ndig = 0;
        let mut i = 1;
        while i < N {
            if i < p {
                let c = s[i];
                if c >= b'0' && c <= b'9' {
                    val = val * 10 + (c - b'0') as u32;
                    ndig += 1;
                } else if !(i == 1 && c == b'+') {
                    all_digits = false;
                }
            }
            i += 1;
        }
        let want = p < n && s[0] == b'[' && p >= 2 && all_digits && ndig >= 1;
        kani::cover!(r.is_some());
        kani::cover!(r.is_none() && s[0] == b'[');
        match r {
            Some((len, id)) => {
                assert!(want);
                assert!(len == p + 1 && len <= n); // consumes exactly "[...]"
                assert!(id == val);
            }
            None => assert!(!want),
        }
    }

    // vacuity guard (must FAIL): claims nothing ever parses
    #[kani::proof]
    #[kani::unwind(8)]
    fn mustfail_numeric_token_never() {
        let s: [u8; 3] = kani::any();
        assert!(parse_numeric_token(&s).is_none());
    }
}
