//@@ append parser/src/json/compiler.rs
// Unit jsonobj_k (Kani path B, loop-free): the call site of bounded_sequence in Compiler::gen_json_object
// (min/maxProperties budget for additional / pattern properties).  bounded_sequence is a shim that ASSERTS the
// precondition proved necessary in unit repeat_v (never "at most 0", min <= max) and returns the count set that unit proves.
#[cfg(kani)]
mod verif_kani_jsonobj {
    //@@ span parser/src/json/compiler.rs budget_span :: let min_properties = obj.min_properties.saturating_sub(num_required); ::: @before if num_optional > 0 && (min_properties > 0 || max_properties.is_some()) {
    //@@ span parser/src/json/compiler.rs extra_span :: if !pattern_options.is_empty() && ::: @before self.object_fields(&items)

    struct ShimError;
    type Result<T> = core::result::Result<T, ShimError>;
    struct UnsatisfiableSchemaError {
        message: String,
    }
    macro_rules! anyhow {
        ($e:expr) => {{
            let _ = $e;
            ShimError
        }};
    }
    macro_rules! format {
        ($($t:tt)*) => {
            String::new()
        };
    }
    /// a grammar node = the set of numbers of properties it can produce (bit k = k properties), k <= 15
    #[derive(Clone, Copy, PartialEq)]
    struct NodeRef(u16);
    struct ShimBuilder;
    impl ShimBuilder {
        fn select(&mut self, options: &[NodeRef]) -> NodeRef {
            let mut r = 0u16;
            let mut i = 0;
            while i < options.len() {
                r |= options[i].0;
                i += 1;
            }
            NodeRef(r)
        }
    }
    struct ObjectSchema {
        min_properties: usize,
        max_properties: Option<usize>,
    }
    struct ShimCompiler {
        builder: ShimBuilder,
        precondition_violated: bool,
    }
    impl ShimCompiler {
        /// contract of the real bounded_sequence as proved in repeat_v (item = exactly one property)
        fn bounded_sequence(&mut self, item: NodeRef, min_elts: usize, max_elts: Option<usize>) -> Result<NodeRef> {
            assert!(item.0 == 0b10);
            if let Some(mx) = max_elts {
                if mx == 0 || min_elts > mx {
                    self.precondition_violated = true;
                }
            }
            let lo = if min_elts >= 1 { min_elts } else { 1 };
            let mut r = 0u16;
            let mut k = 0;
            while k < 16 {
                if k >= lo && max_elts.map_or(true, |m| k <= m) {
                    r |= 1 << k;
                }
                k += 1;
            }
            Ok(NodeRef(r))
        }
        /// the two real statement groups of gen_json_object around the extra-property budget
        fn extra(&mut self, obj: &ObjectSchema, num_required: usize, num_optional: usize, pattern_options: Vec<NodeRef>, items: &mut Vec<(NodeRef, bool)>) -> Result<()> {
            /*@@paste budget_span*/
            let _ = num_optional;
            /*@@paste extra_span*/
            Ok(())
        }
    }

    /// additional / pattern properties: the object may contain between max(min - required, 0) and max - required of them
    /// (none when the budget is 0), and bounded_sequence is never called outside its contract
    #[kani::proof]
    #[kani::unwind(18)]
    fn json_extra_property_budget() {
        let min_p: usize = kani::any();
        let max_p: Option<usize> = if kani::any() { Some(kani::any()) } else { None };
        let num_required: usize = kani::any();
        kani::assume(min_p <= 12 && num_required <= 12 && max_p.map_or(true, |m| m <= 12 && min_p <= m && num_required <= m));
        let have_pattern: bool = kani::any();
        let obj = ObjectSchema { min_properties: min_p, max_properties: max_p };
        let mut c = ShimCompiler { builder: ShimBuilder, precondition_violated: false };
        let mut items: Vec<(NodeRef, bool)> = Vec::with_capacity(2);
        let mut po = Vec::with_capacity(1);
        if have_pattern {
            po.push(NodeRef(0b10)); // one pattern/additional property alternative = exactly one property
        }
        let r = c.extra(&obj, num_required, 0, po, &mut items);
        kani::cover!(r.is_ok() && items.len() == 1);
        kani::cover!(r.is_err());
        assert!(!c.precondition_violated);
        let lo = min_p.saturating_sub(num_required);
        let hi = max_p.map(|m| m - num_required);
        // numbers of extra properties admitted (0 is admitted iff nothing is pushed or the pushed item is optional)
        let k: usize = kani::any();
        kani::assume(k <= 13);
        let admitted = match r {
            Err(_) => false,
            Ok(()) => {
                if items.is_empty() {
                    k == 0
                } else {
                    let (n, required) = items[0];
                    (k == 0 && !required) || (k >= 1 && n.0 & (1 << k) != 0)
                }
            }
        };
        let wanted = if have_pattern { k >= lo && hi.map_or(true, |h| k <= h) } else { k == 0 && lo == 0 };
        if r.is_ok() {
            assert!(admitted == wanted);
        } else {
            // rejected only when the schema is unsatisfiable: extra properties are required but none can be produced
            assert!(!have_pattern && lo > 0);
        }
        core::mem::forget(items);
    }

    // vacuity guard (must FAIL): claims extra properties are never admitted
    #[kani::proof]
    #[kani::unwind(18)]
    fn mustfail_json_no_extra_ever() {
        let obj = ObjectSchema { min_properties: 0, max_properties: Some(3) };
        let mut c = ShimCompiler { builder: ShimBuilder, precondition_violated: false };
        let mut items: Vec<(NodeRef, bool)> = Vec::with_capacity(2);
        let r = c.extra(&obj, 1, 0, vec![NodeRef(0b10)], &mut items);
        assert!(r.is_ok() && items.is_empty());
    }
}
