//@@ append parser/src/earley/parser.rs
// Unit rowpush_k, second file: the guard in ParserState::advance_parser that re-uses an Earley row pushed by an earlier speculative
// descent instead of scanning again.  A row is re-used only in speculative mode, only if it lies inside the valid window
// [num_rows, rows_valid_end) kept fresh by just_push_row (first file), and only if it was produced by the same lexeme.
#[cfg(kani)]
mod verif_kani_rowreuse {
    //@@ span parser/src/earley/parser.rs reuse_guard :: @after let scan_res = if ::: == lexeme_idx

    struct ShimScratch {
        definitive: bool,
    }
    #[derive(Clone, Copy)]
    struct ShimRow {
        lexeme_idx: u32,
    }
    struct ShimState {
        scratch: ShimScratch,
        rows: [ShimRow; 3],
        nrows: usize,
        rows_valid_end: usize,
    }
    impl ShimState {
        fn num_rows(&self) -> usize {
            self.nrows
        }
        fn reuse(&self, lexeme_idx: u32) -> bool {
            /*@@paste reuse_guard*/
        }
    }

    #[kani::proof]
    fn row_reuse_guard() {
        let idx: [u32; 3] = kani::any();
        let st = ShimState {
            scratch: ShimScratch { definitive: kani::any() },
            rows: [ShimRow { lexeme_idx: idx[0] }, ShimRow { lexeme_idx: idx[1] }, ShimRow { lexeme_idx: idx[2] }],
            nrows: kani::any(),
            rows_valid_end: kani::any(),
        };
        // the valid window lies within the physical rows (row_store_fresh keeps it so)
        kani::assume(st.nrows <= st.rows_valid_end && st.rows_valid_end <= 3);
        let l: u32 = kani::any();
        let r = st.reuse(l);
        let want = !st.scratch.definitive && st.nrows < st.rows_valid_end && idx[st.nrows % 3] == l && st.nrows < 3;
        assert!(r == want);
        kani::cover!(r);
    }

    // vacuity guard (must FAIL): claims a row is never re-used
    #[kani::proof]
    fn mustfail_row_never_reused() {
        let st = ShimState { scratch: ShimScratch { definitive: false }, rows: [ShimRow { lexeme_idx: 7 }; 3], nrows: 1, rows_valid_end: 2 };
        assert!(!st.reuse(7));
    }
}
