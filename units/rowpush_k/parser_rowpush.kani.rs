//@@ append parser/src/earley/parser.rs
// Unit rowpush_k (Kani path B): the row-store statements of ParserState::just_push_row.
// Freshness invariant of the Earley row cache used by the speculative trie walk: after (re)writing row `idx` no row above
// it may still count as valid (rows in [num_rows, rows_valid_end) are reused by advance_parser when the same lexeme is
// scanned again, so a row computed from an overwritten predecessor must never survive).
#[cfg(kani)]
mod verif_kani_rowpush {
    //@@ span parser/src/earley/parser.rs row_store :: let idx = self.num_rows(); let row = self.scratch.work_row(lex_start); ::: @before if self.scratch.definitive {

    struct ShimScratch {
        next: u32,
    }
    impl ShimScratch {
        fn work_row(&self, lex_start: u32) -> u32 {
            self.next ^ lex_start
        }
    }
    struct ShimState {
        rows: Vec<u32>,
        rows_valid_end: usize,
        nrows: usize,
        scratch: ShimScratch,
    }
    impl ShimState {
        fn num_rows(&self) -> usize {
            self.nrows
        }
        fn store(&mut self, lex_start: u32) {
            /*@@paste row_store*/
        }
    }

    #[kani::proof]
    #[kani::unwind(6)]
    fn row_store_fresh() {
        let len: usize = kani::any();
        kani::assume(len <= 3);
        let mut rows = Vec::with_capacity(4);
        let init: [u32; 3] = kani::any();
        let mut i = 0;
        while i < 3 {
            if i < len {
                rows.push(init[i]);
            }
            i += 1;
        }
        let nrows: usize = kani::any();
        let valid: usize = kani::any();
        // virtual stack height <= physical rows; the valid prefix covers the virtual stack and lies within the physical rows
        kani::assume(nrows <= len && nrows <= valid && valid <= len);
        let mut st = ShimState { rows, rows_valid_end: valid, nrows, scratch: ShimScratch { next: kani::any() } };
        let lex: u32 = kani::any();
        let want = st.scratch.work_row(lex);
        kani::cover!(valid > nrows + 1);
        st.store(lex);
        let want_len = if nrows == len { len + 1 } else { len };
        assert!(st.rows.len() == want_len);
        assert!(st.rows[nrows] == want);
        let k: usize = kani::any();
        kani::assume(k < nrows);
        assert!(st.rows[k] == init[k]); // rows below are untouched
        assert!(st.rows_valid_end == nrows + 1); // the new row is valid, nothing above it is
    }

    // vacuity guard (must FAIL)
    #[kani::proof]
    #[kani::unwind(6)]
    fn mustfail_row_store_keeps_len() {
        let mut st = ShimState { rows: vec![1], rows_valid_end: 1, nrows: 1, scratch: ShimScratch { next: 0 } };
        st.store(3);
        assert!(st.rows.len() == 1);
    }
}
