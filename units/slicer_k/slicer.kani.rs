//@@ append parser/src/earley/slicer.rs
// Unit slicer_k (Kani path B): the real text of TokenizerSlice::{from_topo_node, matches, trie_apply, apply} and
// SlicedBiasComputer::compute_bias compiled against a shim environment in which a "trie" is just a token set.
// The slice tree (masks, remainder tries) is BUILT BY THE REAL from_topo_node; SimpleVob is the real one.
#[cfg(kani)]
mod verif_kani_slicer {
    use super::TopoNode;
    use anyhow::Result;
    use toktrie::SimpleVob;

    //@@ fnspan parser/src/earley/slicer.rs ts_from_topo_node TokenizerSlice::from_topo_node
    //@@ fnspan parser/src/earley/slicer.rs ts_matches TokenizerSlice::matches
    //@@ fnspan parser/src/earley/slicer.rs ts_trie_apply TokenizerSlice::trie_apply
    //@@ fnspan parser/src/earley/slicer.rs ts_apply TokenizerSlice::apply
    //@@ fnspan parser/src/earley/slicer.rs sbc_compute_bias BiasComputer@SlicedBiasComputer::compute_bias

    type TokenId = u32;
    const VOCAB: usize = 8;
    const NRX: usize = 5;

    macro_rules! debug {
        ($($arg:tt)*) => {};
    }

    /// a "trie" = the set of tokens it contains (bit mask over VOCAB tokens).
    /// add_bias(rec, trg, []) sets exactly the contained tokens the recognizer allows: this is unit walk_v's
    /// postcondition for the real TokTrie::add_bias (proved there), used here as the assumed contract.
    #[derive(Clone)]
    struct TokTrie {
        toks: u8,
        bytes: [[u8; 1]; VOCAB],
    }
    impl TokTrie {
        fn vocab_size(&self) -> usize {
            VOCAB
        }
        fn alloc_token_set(&self) -> SimpleVob {
            SimpleVob::alloc_with_capacity(VOCAB, VOCAB + 1)
        }
        fn token(&self, idx: u32) -> &[u8] {
            if self.toks & (1 << idx) != 0 {
                &self.bytes[idx as usize]
            } else {
                &[]
            }
        }
        /// filtered trie = trie of the filtered vocabulary (assumed for the real filter(), which goes through the builder)
        fn filter(&self, m: &SimpleVob) -> TokTrie {
            let mut toks = 0u8;
            let mut i = 0;
            while i < VOCAB {
                if self.toks & (1 << i) != 0 && m.is_allowed(i as u32) {
                    toks |= 1 << i;
                }
                i += 1;
            }
            TokTrie { toks, bytes: self.bytes }
        }
        fn add_bias(&self, rec: &mut ParserRecognizer<'_>, trg: &mut SimpleVob, _start: &[u8]) {
            // (the token-prefix semantics of a non-empty start is unit walk_v's business; here the walk is abstract)
            rec.st.walks += 1;
            let mut i = 0;
            while i < VOCAB {
                if self.toks & rec.st.allowed & (1 << i) != 0 {
                    trg.allow_token(i as u32);
                }
                i += 1;
            }
        }
    }

    /// stands for derivre's Regex: token t matches regex number k iff bit t of RX[k]
    struct Regex {
        k: usize,
        rx: [u8; NRX],
    }
    struct RxErr;
    impl core::fmt::Display for RxErr {
        fn fmt(&self, _f: &mut core::fmt::Formatter<'_>) -> core::fmt::Result {
            Ok(())
        }
    }
    static mut RX: [u8; NRX] = [0; NRX];
    impl Regex {
        fn new(s: &str) -> core::result::Result<Regex, RxErr> {
            Ok(Regex { k: (s.as_bytes()[0] - b'0') as usize, rx: unsafe { RX } })
        }
        fn is_match_bytes(&mut self, b: &[u8]) -> bool {
            self.rx[self.k] & (1 << b[0]) != 0
        }
    }

    struct ShimState {
        allowed: u8,
        rx: [u8; NRX],
        walks: usize,
        metrics: ShimMetrics,
        stats: ShimStats,
    }
    struct ShimMetrics {
        slicer_leftover_us: usize,
    }
    struct ShimStats {
        slices_applied: usize,
    }
    struct ShimLexer<'b> {
        st: &'b ShimState,
    }
    impl ShimLexer<'_> {
        /// ASSUMED soundness of derivre containment: `true` only if every token of the slice is accepted now
        fn check_subsume(&mut self, _state: u32, idx: usize, _budget: usize) -> core::result::Result<bool, ()> {
            if kani::any() {
                return Err(()); // fuel exhausted etc. (anyhow::Error would drag backtrace capture into CBMC)
            }
            let b: bool = kani::any();
            if b {
                kani::assume(self.st.rx[idx] & !self.st.allowed == 0);
            }
            Ok(b)
        }
        fn subsume_possible(&mut self, _state: u32) -> bool {
            kani::any()
        }
    }
    struct ParserRecognizer<'a> {
        st: &'a mut ShimState,
    }
    impl ParserRecognizer<'_> {
        fn lexer_state(&self) -> u32 {
            0
        }
        fn lexer_mut(&mut self) -> ShimLexer<'_> {
            ShimLexer { st: &*self.st }
        }
        fn metrics_mut(&mut self) -> &mut ShimMetrics {
            &mut self.st.metrics
        }
        fn stats_mut(&mut self) -> &mut ShimStats {
            &mut self.st.stats
        }
    }
    struct ShimInstant;
    struct ShimDur;
    impl ShimInstant {
        fn now() -> ShimInstant {
            ShimInstant
        }
        fn elapsed(&self) -> ShimDur {
            ShimDur
        }
    }
    impl ShimDur {
        fn as_micros(&self) -> u128 {
            0
        }
    }

    // same field names and types as the real struct (TokTrie/Regex/ParserRecognizer resolve to the shims above)
    struct TokenizerSlice {
        idx: usize,
        regex: String,
        trie_without_child: Vec<TokTrie>,
        trie_without_children: TokTrie,
        trie_with_children: TokTrie,
        mask_with_children: SimpleVob,
        mask_trimmed: SimpleVob,
        children: Vec<TokenizerSlice>,
    }
    impl TokenizerSlice {
        /*@@paste ts_from_topo_node*/
        /*@@paste ts_matches*/
        /*@@paste ts_trie_apply s/crate::Instant/ShimInstant/*/
        /*@@paste ts_apply s/crate::Instant/ShimInstant/*/
    }
    struct SlicedBiasComputer {
        top_slice: TokenizerSlice,
        trie0: TokTrie,
    }
    impl SlicedBiasComputer {
        fn trie(&self) -> &TokTrie {
            &self.trie0
        }
        /*@@paste sbc_compute_bias*/
        fn compute_bias_nonempty(&self, rec: &mut ParserRecognizer<'_>) -> SimpleVob {
            let before = rec.st.stats.slices_applied;
            let r = self.compute_bias(rec, &[b'x']);
            assert!(rec.st.stats.slices_applied == before); // slices are never applied under a pending token prefix
            r
        }
    }

    fn leaf(v: usize) -> TopoNode {
        TopoNode { value: v, children: vec![] }
    }
    fn node(v: usize, ch: Vec<TopoNode>) -> TopoNode {
        TopoNode { value: v, children: ch }
    }

    fn sub(a: u8, b: u8) -> bool {
        a & !b == 0
    }

    fn vob_of(set: u8) -> SimpleVob {
        let mut v = SimpleVob::alloc_with_capacity(VOCAB, VOCAB + 1);
        let mut i = 0;
        while i < VOCAB {
            if set & (1 << i) != 0 {
                v.allow_token(i as u32);
            }
            i += 1;
        }
        v
    }
    fn bytes0() -> [[u8; 1]; VOCAB] {
        let mut bytes = [[0u8; 1]; VOCAB];
        let mut i = 0;
        while i < VOCAB {
            bytes[i][0] = i as u8;
            i += 1;
        }
        bytes
    }
    /// the slice data structure that from_topo_node is specified to build (slice_inv): child sets are subsets of the
    /// parent's, trie_without_child[i] = parent \ child_i, trie_without_children = parent \ union(children)
    fn mk(idx: usize, set: u8, children: Vec<TokenizerSlice>) -> TokenizerSlice {
        let bytes = bytes0();
        let mut union = 0u8;
        let mut twc = Vec::with_capacity(3);
        let mut i = 0;
        while i < children.len() {
            let cs = children[i].trie_with_children.toks;
            twc.push(TokTrie { toks: set & !cs, bytes });
            union |= cs;
            i += 1;
        }
        let mut trimmed = vob_of(set);
        trimmed.trim_trailing_zeros();
        TokenizerSlice {
            idx,
            regex: if idx == 0 { String::new() } else { "x".to_string() },
            trie_without_child: twc,
            trie_without_children: TokTrie { toks: set & !union, bytes },
            trie_with_children: TokTrie { toks: set, bytes },
            mask_with_children: vob_of(set),
            mask_trimmed: trimmed,
            children,
        }
    }

    /// the real compute_bias / apply / matches / trie_apply on a slice tree satisfying slice_inv:
    /// with sound containment checks the sliced mask is bit-for-bit `allowed & vocabulary`
    fn run_apply(rx: [u8; NRX], root: TokenizerSlice) {
        let comp = SlicedBiasComputer { top_slice: root, trie0: TokTrie { toks: 0xff, bytes: bytes0() } };
        let allowed: u8 = kani::any();
        let mut st = ShimState { allowed, rx, walks: 0, metrics: ShimMetrics { slicer_leftover_us: 0 }, stats: ShimStats { slices_applied: 0 } };
        let mut rec = ParserRecognizer { st: &mut st };
        let start_empty: bool = kani::any();
        let sb = [b'x'];
        let set = if start_empty { comp.compute_bias(&mut rec, &[]) } else {
            // a pending token prefix: the slicer must not be used at all
            let _ = &sb;
            comp.compute_bias_nonempty(&mut rec)
        };
        kani::cover!(st.stats.slices_applied > 0 && st.walks > 0);
        let t: u32 = kani::any();
        kani::assume((t as usize) <= VOCAB);
        if (t as usize) < VOCAB {
            assert!(set.is_allowed(t) == (allowed & (1 << t) != 0));
        } else {
            assert!(!set.is_allowed(t)); // nothing at or above the vocabulary size
        }
        assert!(set.len() == VOCAB);
        // no drop glue: recursive drop of Vec<TokenizerSlice> is unwound blindly by CBMC
        core::mem::forget(comp);
        core::mem::forget(set);
    }

    fn any_rx(contain: &[(usize, usize)]) -> [u8; NRX] {
        let rx: [u8; NRX] = kani::any();
        for &(c, p) in contain {
            kani::assume(sub(rx[c], rx[p]));
        }
        rx
    }

    #[kani::proof]
    #[kani::unwind(10)]
    fn slicer_dbg_build_only() {
        let rx = any_rx(&[]);
        let r = mk(0, 0xff, vec![mk(1, rx[1], vec![])]);
        assert!(r.children.len() == 1);
        core::mem::forget(r);
    }
    #[kani::proof]
    #[kani::unwind(10)]
    fn slicer_dbg_leaf_apply() {
        let rx = any_rx(&[]);
        let leaf = mk(1, rx[1], vec![]);
        let allowed: u8 = kani::any();
        let mut st = ShimState { allowed, rx, walks: 0, metrics: ShimMetrics { slicer_leftover_us: 0 }, stats: ShimStats { slices_applied: 0 } };
        let mut rec = ParserRecognizer { st: &mut st };
        let mut set = SimpleVob::alloc_with_capacity(VOCAB, VOCAB + 1);
        let r = leaf.apply(&mut rec, &mut set);
        let t: u32 = kani::any();
        kani::assume((t as usize) < VOCAB);
        assert!(set.is_allowed(t) == (r && rx[1] & (1 << t) != 0));
        core::mem::forget(leaf);
        core::mem::forget(set);
    }
    #[kani::proof]
    #[kani::unwind(10)]
    fn slicer_dbg_root_apply() {
        let rx = any_rx(&[]);
        let root = mk(0, 0xff, vec![mk(1, rx[1], vec![])]);
        let allowed: u8 = kani::any();
        let mut st = ShimState { allowed, rx, walks: 0, metrics: ShimMetrics { slicer_leftover_us: 0 }, stats: ShimStats { slices_applied: 0 } };
        let mut rec = ParserRecognizer { st: &mut st };
        let mut set = SimpleVob::alloc_with_capacity(VOCAB, VOCAB + 1);
        let r = root.apply(&mut rec, &mut set);
        let t: u32 = kani::any();
        kani::assume((t as usize) < VOCAB);
        if r {
            assert!(set.is_allowed(t) == (allowed & (1 << t) != 0));
        }
        core::mem::forget(root);
        core::mem::forget(set);
    }
    #[kani::proof]
    #[kani::unwind(10)]
    fn slicer_apply_one_child() {
        let rx = any_rx(&[]);
        run_apply(rx, mk(0, 0xff, vec![mk(1, rx[1], vec![])]));
    }
    #[kani::proof]
    #[kani::unwind(10)]
    fn slicer_apply_two_siblings() {
        let rx = any_rx(&[]);
        run_apply(rx, mk(0, 0xff, vec![mk(1, rx[1], vec![]), mk(2, rx[2], vec![])]));
    }
    #[kani::proof]
    #[kani::unwind(10)]
    fn slicer_apply_three_siblings() {
        let rx = any_rx(&[]);
        run_apply(rx, mk(0, 0xff, vec![mk(1, rx[1], vec![]), mk(2, rx[2], vec![]), mk(3, rx[3], vec![])]));
    }
    #[kani::proof]
    #[kani::unwind(10)]
    fn slicer_apply_chain2() {
        let rx = any_rx(&[(2, 1)]);
        run_apply(rx, mk(0, 0xff, vec![mk(1, rx[1], vec![mk(2, rx[2], vec![])])]));
    }
    /// the production json_slices() shape: whitespace | (chars+ > chars{1,30} > chars{1,10})
    #[kani::proof]
    #[kani::unwind(10)]
    fn slicer_apply_json_shape() {
        let rx = any_rx(&[(3, 2), (4, 3)]);
        run_apply(rx, mk(0, 0xff, vec![mk(1, rx[1], vec![]), mk(2, rx[2], vec![mk(3, rx[3], vec![mk(4, rx[4], vec![])])])]));
    }
    #[kani::proof]
    #[kani::unwind(10)]
    fn slicer_apply_mixed() {
        let rx = any_rx(&[(3, 1), (4, 1)]);
        run_apply(rx, mk(0, 0xff, vec![mk(1, rx[1], vec![mk(3, rx[3], vec![]), mk(4, rx[4], vec![])]), mk(2, rx[2], vec![])]));
    }

    fn same_slice(a: &TokenizerSlice, b: &TokenizerSlice) -> bool {
        let mut ok = a.idx == b.idx
            && a.trie_with_children.toks == b.trie_with_children.toks
            && a.trie_without_children.toks == b.trie_without_children.toks
            && a.trie_without_child.len() == b.trie_without_child.len()
            && a.children.len() == b.children.len()
            && a.mask_with_children == b.mask_with_children
            && a.mask_trimmed.num_set() == b.mask_trimmed.num_set();
        let mut i = 0;
        while ok && i < a.trie_without_child.len() {
            ok = a.trie_without_child[i].toks == b.trie_without_child[i].toks;
            i += 1;
        }
        ok
    }

    /// the real from_topo_node builds exactly the structure `mk` describes (slice_inv), one level at a time
    fn run_build(tree: TopoNode, rx: [u8; NRX], expect: TokenizerSlice) {
        unsafe {
            RX = rx;
        }
        let regexes: Vec<String> = vec!["".to_string(), "1".to_string(), "2".to_string(), "3".to_string(), "4".to_string()];
        let full = TokTrie { toks: 0xff, bytes: bytes0() };
        let root = TokenizerSlice::from_topo_node(&tree, &full, &regexes);
        assert!(root.is_ok());
        let root = root.unwrap();
        assert!(same_slice(&root, &expect));
        let mut i = 0;
        while i < root.children.len() {
            assert!(same_slice(&root.children[i], &expect.children[i]));
            i += 1;
        }
    }
    #[kani::proof]
    #[kani::unwind(34)]
    fn slicer_build_two_siblings() {
        let rx = any_rx(&[]);
        run_build(node(0, vec![leaf(1), leaf(2)]), rx, mk(0, 0xff, vec![mk(1, rx[1], vec![]), mk(2, rx[2], vec![])]));
    }
    #[kani::proof]
    #[kani::unwind(34)]
    fn slicer_build_chain2() {
        let rx = any_rx(&[(2, 1)]);
        run_build(node(0, vec![node(1, vec![leaf(2)])]), rx, mk(0, 0xff, vec![mk(1, rx[1], vec![mk(2, rx[2], vec![])])]));
    }

    // vacuity guard (must FAIL): a remainder trie that also drops the elder sibling's tokens is NOT what from_topo_node builds
    #[kani::proof]
    #[kani::unwind(34)]
    fn mustfail_slicer_build_wrong_remainder() {
        let rx = any_rx(&[]);
        let mut expect = mk(0, 0xff, vec![mk(1, rx[1], vec![]), mk(2, rx[2], vec![])]);
        expect.trie_without_child[1].toks = 0xff & !(rx[1] | rx[2]);
        run_build(node(0, vec![leaf(1), leaf(2)]), rx, expect);
    }

    // vacuity guard (must FAIL): without the assumed soundness of check_subsume the sliced mask can be wrong
    #[kani::proof]
    #[kani::unwind(10)]
    fn mustfail_slicer_unsound_subsume() {
        let rx = any_rx(&[]);
        let root = mk(0, 0xff, vec![mk(1, rx[1], vec![])]);
        let comp = SlicedBiasComputer { top_slice: root, trie0: TokTrie { toks: 0xff, bytes: bytes0() } };
        let allowed: u8 = kani::any();
        // rx handed to the lexer shim is all-zero: check_subsume's assumption becomes vacuous, i.e. "unsound containment"
        let mut st = ShimState { allowed, rx: [0; NRX], walks: 0, metrics: ShimMetrics { slicer_leftover_us: 0 }, stats: ShimStats { slices_applied: 0 } };
        let mut rec = ParserRecognizer { st: &mut st };
        let set = comp.compute_bias(&mut rec, &[]);
        let t: u32 = kani::any();
        kani::assume((t as usize) < VOCAB);
        assert!(set.is_allowed(t) == (allowed & (1 << t) != 0));
    }
}
