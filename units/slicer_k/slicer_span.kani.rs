//@@ append parser/src/earley/slicer.rs
// Unit slicer_k (Kani path B): the remainder-trie statements of TokenizerSlice::from_topo_node - from
// `let trie_with_children = ...` to `let trie_without_children = ...` - with the recursive call answered by a shim child whose
// token mask is arbitrary.  Real SimpleVob; a "trie" is the set of tokens it holds (filter = restriction to the mask).
#[cfg(kani)]
mod verif_kani_slicer_span {
    use toktrie::SimpleVob;

    //@@ span parser/src/earley/slicer.rs remainder_span :: let trie_with_children = trie.filter(&mask_with_children); ::: let trie_without_children = trie.filter(&mask_without_children);

    const VOCAB: usize = 8;
    const NCH: usize = 3;
    struct ShimErr;
    type Result<T> = core::result::Result<T, ShimErr>;

    #[derive(Clone)]
    struct TokTrie {
        toks: u8,
    }
    impl TokTrie {
        /// filtered trie = the tokens of this trie that the mask allows (what the real filter() builds through TrieBuilder)
        fn filter(&self, m: &SimpleVob) -> TokTrie {
            let mut toks = 0u8;
            let mut i = 0;
            while i < VOCAB {
                if self.toks & (1 << i) != 0 && m.is_allowed(i as u32) {
                    toks |= 1 << i;
                }
                i += 1;
            }
            TokTrie { toks }
        }
    }
    fn vob_of(set: u8) -> SimpleVob {
        let mut v = SimpleVob::alloc_with_capacity(VOCAB, VOCAB + 1);
        let mut i = 0;
        while i < VOCAB {
            if set & (1 << i) != 0 {
                v.allow_token(i as u32);
            }
            i += 1;
        }
        v
    }
    struct TopoNode {
        value: usize,
        children: Vec<TopoNode>,
    }
    /// the child slice as the recursive call returns it: only its token mask matters to the parent
    struct TokenizerSlice {
        mask_with_children: SimpleVob,
    }
    static mut CHILD_SETS: [u8; NCH] = [0; NCH];
    impl TokenizerSlice {
        fn from_topo_node(node: &TopoNode, _trie: &TokTrie, _regexes: &[String]) -> Result<TokenizerSlice> {
            Ok(TokenizerSlice { mask_with_children: vob_of(unsafe { CHILD_SETS[node.value] }) })
        }
    }
    struct Built {
        trie_with_children: TokTrie,
        trie_without_child: Vec<TokTrie>,
        trie_without_children: TokTrie,
        children: Vec<TokenizerSlice>,
    }
    fn remainder(node: &TopoNode, trie: &TokTrie, regexes: &[String], mask_with_children: SimpleVob) -> Result<Built> {
        let mut children = Vec::with_capacity(NCH);
        /*@@paste remainder_span*/
        Ok(Built { trie_with_children, trie_without_child, trie_without_children, children })
    }

    fn run(nch: usize) {
        let own: u8 = kani::any();
        let sets: [u8; NCH] = kani::any();
        unsafe {
            CHILD_SETS = sets;
        }
        let mut ch = Vec::with_capacity(NCH);
        let mut i = 0;
        while i < NCH {
            if i < nch {
                ch.push(TopoNode { value: i, children: Vec::new() });
            }
            i += 1;
        }
        let node = TopoNode { value: 0, children: ch };
        let full = TokTrie { toks: 0xff };
        let regexes: Vec<String> = Vec::new();
        let b = match remainder(&node, &full, &regexes, vob_of(own)) {
            Ok(b) => b,
            Err(_) => {
                assert!(false);
                return;
            }
        };
        assert!(b.trie_with_children.toks == own);
        assert!(b.trie_without_child.len() == nch && b.children.len() == nch);
        let mut union = 0u8;
        let mut i = 0;
        while i < NCH {
            if i < nch {
                // the remainder for child i drops child i's tokens and ONLY those
                assert!(b.trie_without_child[i].toks == own & !sets[i]);
                union |= sets[i];
            }
            i += 1;
        }
        assert!(b.trie_without_children.toks == own & !union);
        kani::cover!(nch >= 2 && sets[0] != 0 && sets[0] & own != 0 && sets[1] & own != 0);
        core::mem::forget(b);
        core::mem::forget(node);
    }

    #[kani::proof]
    #[kani::unwind(12)]
    fn slicer_remainders_2() {
        run(2);
    }
    #[kani::proof]
    #[kani::unwind(12)]
    fn slicer_remainders_3() {
        run(3);
    }
    // vacuity guard (must FAIL): the remainder tries are not all equal to the slice's own trie
    #[kani::proof]
    #[kani::unwind(12)]
    fn mustfail_slicer_remainder_is_own() {
        let own: u8 = kani::any();
        let sets: [u8; NCH] = kani::any();
        unsafe {
            CHILD_SETS = sets;
        }
        let node = TopoNode { value: 0, children: vec![TopoNode { value: 0, children: Vec::new() }] };
        let regexes: Vec<String> = Vec::new();
        if let Ok(b) = remainder(&node, &TokTrie { toks: 0xff }, &regexes, vob_of(own)) {
            assert!(b.trie_without_child[0].toks == own);
            core::mem::forget(b);
        }
        core::mem::forget(node);
    }
}
