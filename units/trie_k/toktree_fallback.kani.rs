//@@ append toktrie/src/toktree.rs
// Unit trie_k: TokTrie::tokenize_with_greedy_fallback (whole real fn pasted into a shim impl): every byte of the input reaches
// exactly one of the two tokenizers, in order - the valid UTF-8 pieces go to `str_tokenize`, the invalid sequences to
// `greedy_tokenize` - so no text is lost, duplicated or reordered.
#[cfg(kani)]
mod verif_kani_fallback {
    use super::TokenId;
    use core::str;

    //@@ fnspan toktrie/src/toktree.rs fallback_fn TokTrie::tokenize_with_greedy_fallback

    struct ShimTrie;
    impl ShimTrie {
        /// stand-in for the byte-level tokenizer: one token per byte, tagged 0x100 (so the harness can see who got which byte)
        fn greedy_tokenize(&self, bytes: &[u8]) -> Vec<TokenId> {
            let mut v = Vec::with_capacity(4);
            let mut i = 0;
            while i < bytes.len() {
                v.push(0x100 | bytes[i] as u32);
                i += 1;
            }
            v
        }
        /*@@paste fallback_fn*/
    }

    fn str_tok(s: &str) -> Vec<TokenId> {
        let b = s.as_bytes();
        let mut v = Vec::with_capacity(4);
        let mut i = 0;
        while i < b.len() {
            v.push(b[i] as u32);
            i += 1;
        }
        v
    }

    fn run<const N: usize>() {
        let buf: [u8; N] = kani::any();
        let r = ShimTrie.tokenize_with_greedy_fallback(&buf, str_tok);
        // nothing lost, duplicated or reordered
        assert!(r.len() == N);
        let mut i = 0;
        while i < N {
            assert!((r[i] & 0xff) as u8 == buf[i]);
            i += 1;
        }
        // bytes given to the text tokenizer form valid UTF-8 on their own only if ...: a byte >= 0x80 that starts no valid
        // sequence must have gone to the byte-level tokenizer
        if N >= 1 && buf[N - 1] >= 0x80 && buf[N - 1] < 0xc0 && (N == 1 || buf[N - 2] < 0x80) {
            assert!(r[N - 1] & 0x100 != 0);
        }
        kani::cover!(N >= 2 && r[0] & 0x100 == 0 && r[N - 1] & 0x100 != 0); // valid text followed by an invalid byte
    }

    #[kani::proof]
    #[kani::unwind(4)]
    fn fallback_keeps_bytes_2() {
        run::<2>();
    }
    #[kani::proof]
    #[kani::unwind(5)]
    fn fallback_keeps_bytes_3() {
        run::<3>();
    }

    // vacuity guard (must FAIL): claims the byte-level tokenizer is never used
    #[kani::proof]
    #[kani::unwind(4)]
    fn mustfail_fallback_never_greedy() {
        let buf: [u8; 2] = kani::any();
        let r = ShimTrie.tokenize_with_greedy_fallback(&buf, str_tok);
        assert!(r.len() < 1 || r[0] & 0x100 == 0);
    }
}
