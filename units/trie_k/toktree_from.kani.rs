//@@ append toktrie/src/toktree.rs
// Unit trie_k: the token table built by TokTrie::from (token(i) = vocabulary entry i), with the arena builder stubbed out
// (TrieBuilder is under contract in the Verus unit builder_v; CBMC cannot execute it).
#[cfg(kani)]
mod verif_kani_from {
    use super::*;

    fn stub_insert(_b: &mut TrieBuilder, _word: &[u8], _token_id: u32) {}
    fn stub_serialize(_b: &mut TrieBuilder, data: &mut Vec<TrieNode>, _num_parents: usize) {
        let mut n = TrieNode::new(0xff, NO_TOKEN, 1);
        n.set_subtree_size(1);
        data.push(n);
    }
    fn word(maxlen: usize) -> Vec<u8> {
        let mut w = Vec::with_capacity(2);
        let n: usize = kani::any();
        kani::assume(n <= maxlen);
        let mut i = 0;
        while i < 2 {
            if i < n {
                w.push(kani::any());
            }
            i += 1;
        }
        w
    }

    #[kani::proof]
    #[kani::unwind(5)]
    #[kani::stub(TrieBuilder::insert, stub_insert)]
    #[kani::stub(TrieBuilder::serialize, stub_serialize)]
    fn from_token_table_2() {
        let words = vec![word(2), word(2)];
        let l0 = words[0].len();
        let l1 = words[1].len();
        let w0: [u8; 2] = [if l0 > 0 { words[0][0] } else { 0 }, if l0 > 1 { words[0][1] } else { 0 }];
        let w1: [u8; 2] = [if l1 > 0 { words[1][0] } else { 0 }, if l1 > 1 { words[1][1] } else { 0 }];
        let trie = TokTrie::from(&TokRxInfo::new(2, 0), &words);
        kani::cover!(l0 == 2 && l1 == 1);
        let t0 = trie.token(0);
        assert!(t0.len() == l0 && (l0 < 1 || t0[0] == w0[0]) && (l0 < 2 || t0[1] == w0[1]));
        let t1 = trie.token(1);
        assert!(t1.len() == l1 && (l1 < 1 || t1[0] == w1[0]) && (l1 < 2 || t1[1] == w1[1]));
        assert!(trie.token(2).is_empty()); // out-of-range ids have no bytes
        let want_max = if l0 > l1 { l0 } else { l1 };
        assert!(trie.max_token_len() == want_max);
        assert!(trie.vocab_size() == 2);
        core::mem::forget(trie);
        core::mem::forget(words);
    }
}
