//@@ append toktrie/src/toktree.rs
// Unit trie_k (Kani path A): trie lookups (NodeChildren iterator, child_at_byte(s), token_id_at_bytes, prefix_token_id,
// all_prefixes, has_extensions, node_offset) on EVERY well-formed flattened trie with up to 5 nodes, against a reference
// that works on the depth sequence instead of subtree-size hopping.  The builder is not involved: node arrays are generated
// from a symbolic depth sequence, which yields exactly the arrays satisfying TrieWf (DESIGN.md section 3).
#[cfg(kani)]
mod verif_kani_trie {
    use super::*;

    const N: usize = 5;

    struct Shape {
        d: [usize; N],
        byte: [u8; N],
        tok: [u32; N],
        size: [usize; N],
    }

    fn any_trie() -> (TokTrie, Shape) {
        let mut d = [0usize; N];
        let byte: [u8; N] = kani::any();
        let mut tok = [NO_TOKEN; N];
        let mut j = 1;
        while j < N {
            let dj: usize = kani::any();
            kani::assume(dj >= 1 && dj <= d[j - 1] + 1);
            d[j] = dj;
            if kani::any() {
                tok[j] = (j - 1) as u32;
            }
            j += 1;
        }
        let mut size = [0usize; N];
        let mut nodes = Vec::with_capacity(N);
        let mut j = 0;
        while j < N {
            // end of the subtree: first later node that is not deeper
            let mut e = j + 1;
            while e < N && d[e] > d[j] {
                e += 1;
            }
            size[j] = e - j;
            let dnext = if e < N { d[e] } else { 1 };
            let np = if j == 0 { 1 } else { d[j] + 1 - dnext };
            nodes.push(TrieNode { bits: (tok[j] << 8) | byte[j] as u32, bits2: (np as u32 - 1) | ((size[j] as u32) << PARENT_BITS) });
            j += 1;
        }
        let trie = TokTrie {
            info: TokRxInfo::new((N - 1) as u32, 0),
            token_offsets: Vec::new(),
            token_data: Vec::new(),
            nodes,
            max_token_len: N,
            eos_tokens: Vec::new(),
            sorted_vocab: Vec::new(),
        };
        (trie, Shape { d, byte, tok, size })
    }

    /// reference: first child of j (a node one level deeper inside j's subtree) carrying byte b
    fn ref_child(s: &Shape, j: usize, b: u8) -> Option<usize> {
        let mut k = j + 1;
        while k < j + s.size[j] {
            if s.d[k] == s.d[j] + 1 && s.byte[k] == b {
                return Some(k);
            }
            k += 1;
        }
        None
    }
    fn ref_walk(s: &Shape, bytes: &[u8]) -> Option<usize> {
        let mut j = 0;
        let mut i = 0;
        while i < bytes.len() {
            match ref_child(s, j, bytes[i]) {
                Some(k) => j = k,
                None => return None,
            }
            i += 1;
        }
        Some(j)
    }

    #[kani::proof]
    #[kani::unwind(7)]
    fn trie_child_at_byte() {
        let (trie, s) = any_trie();
        let j: usize = kani::any();
        kani::assume(j < N);
        let b: u8 = kani::any();
        let n = &trie.nodes[j];
        assert!(trie.node_offset(n) == j);
        let got = trie.child_at_byte(n, b).map(|c| trie.node_offset(c));
        assert!(got == ref_child(&s, j, b));
        // NodeChildren yields exactly the nodes one level below j inside its subtree, in order
        let mut cnt = 0;
        let mut last = j;
        for c in trie.node_children(n) {
            let k = trie.node_offset(c);
            assert!(k > last && k < j + s.size[j] && s.d[k] == s.d[j] + 1);
            last = k;
            cnt += 1;
        }
        let mut want = 0;
        let mut k = j + 1;
        while k < j + s.size[j] {
            if s.d[k] == s.d[j] + 1 {
                want += 1;
            }
            k += 1;
        }
        assert!(cnt == want);
        core::mem::forget(trie);
    }

    #[kani::proof]
    #[kani::unwind(7)]
    fn trie_child_at_bytes() {
        let (trie, s) = any_trie();
        let bytes: [u8; 3] = kani::any();
        let len: usize = kani::any();
        kani::assume(len <= 3);
        let got = trie.child_at_bytes(trie.root(), &bytes[..len]).map(|c| trie.node_offset(c));
        let want = ref_walk(&s, &bytes[..len]);
        assert!(got == want);
        kani::cover!(len == 3 && got.is_some());
        // the node found spells `bytes`: depth = len and the bytes along its ancestors match
        if let Some(k) = got {
            assert!(s.d[k] == len);
            if len > 0 {
                assert!(s.byte[k] == bytes[len - 1]);
            }
        }
        let want_tok = want.and_then(|k| if s.tok[k] == NO_TOKEN { None } else { Some(s.tok[k]) });
        assert!(trie.token_id_at_bytes(&bytes[..len]) == want_tok);
        assert!(trie.has_extensions(&bytes[..len]) == want.map_or(false, |k| s.size[k] > 1));
        core::mem::forget(trie);
    }

    #[kani::proof]
    #[kani::unwind(7)]
    fn trie_prefix_token_id() {
        let (trie, s) = any_trie();
        let bytes: [u8; 3] = kani::any();
        let len: usize = kani::any();
        kani::assume(len >= 1 && len <= 3);
        let (tok, l) = trie.prefix_token_id(&bytes[..len]);
        // longest prefix of `bytes` that is a token (first-match descent), (0,0) if none
        let mut best = (0u32, 0usize);
        let mut i = 1;
        while i <= len {
            if let Some(k) = ref_walk(&s, &bytes[..i]) {
                if s.tok[k] != NO_TOKEN {
                    best = (s.tok[k], i);
                }
            }
            i += 1;
        }
        assert!((tok, l) == best);
        let all = trie.all_prefixes(&bytes[..len]);
        let mut cnt = 0;
        let mut i = 1;
        let mut alive = true;
        while i <= len {
            match ref_walk(&s, &bytes[..i]) {
                Some(k) if alive => {
                    if s.tok[k] != NO_TOKEN {
                        assert!(cnt < all.len() && all[cnt] == s.tok[k]);
                        cnt += 1;
                    }
                }
                _ => alive = false,
            }
            i += 1;
        }
        assert!(all.len() == cnt);
        core::mem::forget(trie);
        core::mem::forget(all);
    }

    /// greedy_tokenize on one- and two-byte texts: at each position the longest token along the first-match path is emitted
    /// (whatever its id is - id 0 included), a byte no token starts with is skipped
    #[kani::proof]
    #[kani::unwind(7)]
    fn trie_greedy_tokenize_short() {
        let (trie, s) = any_trie();
        let bytes: [u8; 2] = kani::any();
        let len: usize = kani::any();
        kani::assume(len >= 1 && len <= 2);
        let toks = trie.greedy_tokenize(&bytes[..len]);
        let tok_of = |k: usize| if s.tok[k] == NO_TOKEN { None } else { Some(s.tok[k]) };
        let n1 = ref_child(&s, 0, bytes[0]);
        let t1 = n1.and_then(tok_of);
        if len == 1 {
            match t1 {
                Some(t) => assert!(toks.len() == 1 && toks[0] == t),
                None => assert!(toks.len() == 0),
            }
        } else {
            let n12 = n1.and_then(|k| ref_child(&s, k, bytes[1]));
            let t12 = n12.and_then(tok_of);
            let t2 = ref_child(&s, 0, bytes[1]).and_then(tok_of);
            if let Some(t) = t12 {
                assert!(toks.len() == 1 && toks[0] == t); // the two-byte token wins
            } else {
                // first byte alone (or skipped), then the second byte alone (or skipped)
                let mut want = [0u32; 2];
                let mut n = 0;
                if let Some(t) = t1 {
                    want[n] = t;
                    n += 1;
                }
                if let Some(t) = t2 {
                    want[n] = t;
                    n += 1;
                }
                assert!(toks.len() == n);
                if n >= 1 {
                    assert!(toks[0] == want[0]);
                }
                if n == 2 {
                    assert!(toks[1] == want[1]);
                }
            }
        }
        kani::cover!(toks.len() == 2);
        kani::cover!(toks.len() == 1 && toks[0] == 0);
        core::mem::forget(trie);
        core::mem::forget(toks);
    }

    // vacuity guard (must FAIL): claims every byte string of length 1 is found
    #[kani::proof]
    #[kani::unwind(7)]
    fn mustfail_trie_every_byte_found() {
        let (trie, _s) = any_trie();
        let b: u8 = kani::any();
        assert!(trie.child_at_byte(trie.root(), b).is_some());
        core::mem::forget(trie);
    }
}
