//@@ append parser/src/matcher.rs
// Unit matcher_k (Kani path B): the server-side Matcher interface.  The real text of Matcher::{with_inner, consume_tokens,
// consume_token, rollback, compute_mask, compute_mask_or_eos, is_accepting, is_stopped, stop_reason, validate_tokens, is_error,
// try_consume_tokens} is compiled against a shim token parser whose every answer is nondeterministic.  Checked: a failure of any
// call latches the matcher in its error state and every later call keeps reporting it; a stopped parser's mask is the EOS set and
// the parser is not asked for a mask; tokens are committed in order and commitment ends at the first failure.
#[cfg(kani)]
mod verif_kani_matcher {
    use crate::api::StopReason;
    use toktrie::TokenId;

    //@@ fnspan parser/src/matcher.rs m_with_inner Matcher::with_inner
    //@@ fnspan parser/src/matcher.rs m_consume_tokens Matcher::consume_tokens
    //@@ fnspan parser/src/matcher.rs m_consume_token Matcher::consume_token
    //@@ fnspan parser/src/matcher.rs m_rollback Matcher::rollback
    //@@ fnspan parser/src/matcher.rs m_compute_mask Matcher::compute_mask
    //@@ fnspan parser/src/matcher.rs m_compute_mask_or_eos Matcher::compute_mask_or_eos
    //@@ fnspan parser/src/matcher.rs m_is_accepting Matcher::is_accepting
    //@@ fnspan parser/src/matcher.rs m_is_stopped Matcher::is_stopped
    //@@ fnspan parser/src/matcher.rs m_stop_reason Matcher::stop_reason
    //@@ fnspan parser/src/matcher.rs m_validate_tokens Matcher::validate_tokens
    //@@ fnspan parser/src/matcher.rs m_is_error Matcher::is_error
    //@@ fnspan parser/src/matcher.rs m_try_consume_tokens Matcher::try_consume_tokens

    #[derive(Clone, Copy, PartialEq)]
    struct ShimError(u8);
    type Result<T> = core::result::Result<T, ShimError>;
    /// the error text kept by the matcher (a one-byte code stands for the String)
    type ErrMsg = u8;
    macro_rules! ensure {
        ($c:expr, $($t:tt)*) => {
            if !($c) {
                return Err(ShimError(0xEE));
            }
        };
    }
    macro_rules! bail {
        ($e:expr) => {
            return Err(ShimError($e))
        };
    }
    macro_rules! anyhow {
        ($f:literal, $e:expr) => {
            ShimError(*$e)
        };
    }
    /// panic_utils::catch_unwind: Kani has no unwinding, so a panic inside `f` is a verification failure here instead of an Err;
    /// what is modelled is the flattening of f's own Result
    mod panic_utils {
        pub fn catch_unwind<R>(f: std::panic::AssertUnwindSafe<impl FnOnce() -> super::Result<R>>) -> super::Result<R> {
            (f.0)()
        }
    }

    /// a mask stands for itself: 0 = the EOS set, 1.. = whatever the parser computed
    #[derive(Clone, Copy, PartialEq)]
    struct SimpleVob(u8);
    struct ShimTrie;
    impl ShimTrie {
        fn eos_token_set(&self) -> SimpleVob {
            SimpleVob(0)
        }
    }
    struct ShimEnv;
    impl ShimEnv {
        fn tok_trie(&self) -> ShimTrie {
            ShimTrie
        }
    }
    /// every answer of the token parser is nondeterministic; it logs what the interface asks of it
    struct ShimParser {
        token_env: ShimEnv,
        stop: StopReason,
        consumed: [TokenId; 3],
        n_consumed: usize,
        check_stops: usize,
        masks: usize,
        rollbacks: usize,
        fail_next: bool,
    }
    impl ShimParser {
        fn answer<T>(&mut self, v: T) -> Result<T> {
            if kani::any() {
                Err(ShimError(kani::any()))
            } else {
                Ok(v)
            }
        }
        fn consume_token(&mut self, t: TokenId) -> Result<usize> {
            if self.n_consumed < 3 {
                self.consumed[self.n_consumed] = t;
            }
            self.n_consumed += 1;
            let bt: usize = if kani::any() { 0 } else { 1 };
            self.answer(bt)
        }
        fn check_stop(&mut self) -> Result<bool> {
            self.check_stops += 1;
            let b: bool = kani::any();
            if b {
                self.stop = StopReason::NoExtension;
            }
            self.answer(b)
        }
        fn validate_token(&mut self, _t: TokenId) -> Result<bool> {
            let b: bool = kani::any();
            self.answer(b)
        }
        fn validate_tokens_raw(&mut self, tokens: &[TokenId]) -> Result<usize> {
            let n: usize = kani::any();
            kani::assume(n <= tokens.len());
            self.answer(n)
        }
        fn rollback(&mut self, _n: usize) -> Result<()> {
            self.rollbacks += 1;
            self.answer(())
        }
        fn compute_mask(&mut self) -> Result<SimpleVob> {
            self.masks += 1;
            let m: u8 = kani::any();
            kani::assume(m != 0);
            self.answer(SimpleVob(m))
        }
        fn stop_reason(&self) -> StopReason {
            self.stop
        }
        fn is_accepting(&mut self) -> bool {
            kani::any()
        }
        fn augment_err(&self, e: ShimError) -> ErrMsg {
            e.0
        }
    }
    struct MatcherInner {
        parser: ShimParser,
    }
    enum MatcherState {
        Normal(MatcherInner),
        Error(ErrMsg),
    }
    struct Matcher(MatcherState);
    impl Matcher {
        /*@@paste m_with_inner*/
        /*@@paste m_consume_tokens*/
        /*@@paste m_consume_token*/
        /*@@paste m_rollback*/
        /*@@paste m_compute_mask*/
        /*@@paste m_compute_mask_or_eos*/
        /*@@paste m_is_accepting*/
        /*@@paste m_is_stopped*/
        /*@@paste m_stop_reason*/
        /*@@paste m_validate_tokens*/
        /*@@paste m_is_error*/
        /*@@paste m_try_consume_tokens*/
    }

    fn fresh() -> Matcher {
        let stop = if kani::any() { StopReason::NotStopped } else { StopReason::NoExtension };
        Matcher(MatcherState::Normal(MatcherInner {
            parser: ShimParser {
                token_env: ShimEnv,
                stop,
                consumed: [0; 3],
                n_consumed: 0,
                check_stops: 0,
                masks: 0,
                rollbacks: 0,
                fail_next: false,
            },
        }))
    }

    /// one nondeterministic call of the interface; returns whether it failed
    fn any_call(m: &mut Matcher) -> bool {
        let toks: [TokenId; 2] = kani::any();
        let op: u8 = kani::any();
        match op {
            0 => m.consume_tokens(&toks).is_err(),
            1 => m.consume_token(toks[0]).is_err(),
            2 => m.rollback(1).is_err(),
            3 => m.compute_mask().is_err(),
            4 => m.compute_mask_or_eos().is_err(),
            5 => m.is_accepting().is_err(),
            6 => m.validate_tokens(&toks).is_err(),
            _ => m.try_consume_tokens(&toks).is_err(),
        }
    }

    /// a failing call latches the error; afterwards every call fails and the matcher reports stopped / InternalError
    #[kani::proof]
    #[kani::unwind(4)]
    fn matcher_error_is_sticky() {
        let mut m = fresh();
        let failed = any_call(&mut m);
        assert!(failed == m.is_error());
        if failed {
            assert!(m.is_stopped());
            assert!(m.stop_reason() == StopReason::InternalError);
            let code = match &m.0 {
                MatcherState::Error(c) => *c,
                _ => 0,
            };
            // second and third call: still failing, same recorded error, the token parser is gone
            assert!(any_call(&mut m));
            assert!(any_call(&mut m));
            assert!(m.is_error() && m.is_stopped() && m.stop_reason() == StopReason::InternalError);
            match &m.0 {
                MatcherState::Error(c) => assert!(*c == code),
                _ => assert!(false),
            }
        }
        kani::cover!(failed);
        kani::cover!(!failed);
    }

    /// the mask of a stopped parser is the EOS set and the parser is not asked; otherwise it is the parser's mask
    #[kani::proof]
    #[kani::unwind(4)]
    fn matcher_mask_or_eos() {
        let mut m = fresh();
        let stopped = m.is_stopped();
        let r = m.compute_mask_or_eos();
        match (&m.0, r) {
            (MatcherState::Normal(inner), Ok(mask)) => {
                if stopped {
                    assert!(mask == SimpleVob(0) && inner.parser.masks == 0);
                } else {
                    assert!(mask != SimpleVob(0) && inner.parser.masks == 1);
                }
            }
            (MatcherState::Error(_), Err(_)) => assert!(!stopped),
            _ => assert!(false),
        }
        kani::cover!(stopped);
    }

    /// tokens are committed in order, commitment ends at the first failure (or at backtracking), the stop check runs exactly once after
    /// a fully successful batch
    #[kani::proof]
    #[kani::unwind(4)]
    fn matcher_consume_in_order() {
        let mut m = fresh();
        let toks: [TokenId; 2] = kani::any();
        let r = m.consume_tokens(&toks);
        match (&m.0, r) {
            (MatcherState::Normal(inner), Ok(())) => {
                let p = &inner.parser;
                assert!(p.n_consumed == 2 && p.consumed[0] == toks[0] && p.consumed[1] == toks[1] && p.check_stops == 1);
            }
            (MatcherState::Error(_), Err(_)) => {}
            _ => assert!(false),
        }
    }

    // vacuity guard (must FAIL): claims no call ever fails
    #[kani::proof]
    #[kani::unwind(4)]
    fn mustfail_matcher_never_fails() {
        let mut m = fresh();
        assert!(!any_call(&mut m));
    }
}
