//@@ append parser/src/matcher.rs
// Replay / search harness for the parser-level units (rollback_v, tokrollback_k, repeat_v, rowpush_k): drives the real engine through
// the public API (single-byte vocabulary, offline) and compares with an engine that never saw the rolled-back tokens / with
// the count set a repetition names.  Prints REPLAY-FAIL <input> on a violation.
#[cfg(test)]
mod verif_replay_matcher {
    use crate::api::TopLevelGrammar;
    use crate::earley::SlicedBiasComputer;
    use crate::toktrie::{ApproximateTokEnv, InferenceCapabilities, TokEnv, TokenId};
    use crate::{Matcher, ParserFactory};

    struct Rng(u64);
    impl Rng {
        fn next(&mut self) -> u64 {
            self.0 ^= self.0 << 13;
            self.0 ^= self.0 >> 7;
            self.0 ^= self.0 << 17;
            self.0
        }
        fn below(&mut self, n: u64) -> u64 {
            self.next() % n
        }
    }

    fn mk(env: &TokEnv, lark: &str) -> Matcher {
        let factory = ParserFactory::new(env, InferenceCapabilities::default(), &SlicedBiasComputer::general_slices()).unwrap();
        let parser = match factory.create_parser(TopLevelGrammar::from_lark(lark.to_string())) {
            Ok(p) => p,
            Err(e) => panic!("grammar does not compile: {lark:?}: {e}"),
        };
        Matcher::new(Ok(parser))
    }

    #[derive(Debug, PartialEq, Eq)]
    struct Obs {
        stopped: bool,
        accepting: bool,
        forced: Vec<u8>,
        mask: Vec<u32>,
    }
    fn observe(m: &mut Matcher) -> Obs {
        let forced = m.compute_ff_bytes();
        let accepting = m.is_accepting().unwrap_or(false);
        let mask = m.compute_mask_or_eos().map(|v| v.to_list()).unwrap_or_default();
        Obs { stopped: m.is_stopped(), accepting, forced, mask }
    }

    const GRAMMARS: &[&str] = &[
        "start: a | b\na: \"a\" X \"1\"\nb: \"b\" X \"2\"\nX: /x+/\n",
        "start: /[a-c]+/ \"!\"?\n",
        "start: \"a\" <|end|> \"b\"\n",
        "start: /ab(c[de])?/\n",
        "start: (\"ab\" | \"ac\" | \"b\") /[a-b]{0,3}/ \"z\"\n",
        "start: item item item\nitem: \"x\" | \"xy\" | \"y\"\n",
        // a forced single-id token position: the parser holds \\xFF[55], token 55 is matched by id (defect D5)
        "start: \"a\" <[55]> /[b-d]+/\n",
        "start: /[a-c]/ <[55]> <[56]> \"b\"\n",
    ];

    #[test]
    fn verif_replay_rollback() {
        let seed: u64 = std::env::var("VERIF_SEED").ok().and_then(|s| s.parse().ok()).unwrap_or(0);
        let mut rng = Rng(0x9E3779B97F4A7C15 ^ seed.wrapping_mul(0x2545F4914F6CDD1D) | 1);
        let env = ApproximateTokEnv::single_byte_env();
        let mut cases = 0;
        for (gi, lark) in GRAMMARS.iter().enumerate() {
            for _ in 0..150 {
                // random history of mask-allowed tokens, with mask computations and rollbacks interleaved
                let mut m = mk(&env, lark);
                let mut hist: Vec<TokenId> = vec![];
                let mut script = String::new();
                for _step in 0..10 {
                    if m.is_error() || (m.is_stopped() && hist.is_empty()) {
                        break;
                    }
                    // a stopped engine (grammar complete / EOS committed) can only be rolled back
                    let action = if m.is_stopped() { 0 } else { rng.below(5) };
                    if action == 0 && !hist.is_empty() {
                        let k = 1 + rng.below(hist.len() as u64) as usize;
                        if m.rollback(k).is_err() {
                            break;
                        }
                        hist.truncate(hist.len() - k);
                        script.push_str(&format!("rollback({k}); "));
                        // compare with an engine that never saw the dropped tokens
                        let mut fresh = mk(&env, lark);
                        if fresh.consume_tokens(&hist).is_err() {
                            panic!("REPLAY-FAIL grammar#{gi}: fresh engine rejects the kept prefix {hist:?} after [{script}]");
                        }
                        let (a, b) = (observe(&mut m), observe(&mut fresh));
                        if a != b {
                            panic!("REPLAY-FAIL grammar#{gi} {lark:?}: after [{script}] the rolled-back engine shows {a:?}, an engine that only saw {hist:?} shows {b:?}");
                        }
                        cases += 1;
                    } else {
                        let mask = match m.compute_mask_or_eos() {
                            Ok(v) => v.to_list(),
                            Err(_) => break,
                        };
                        if mask.is_empty() {
                            break;
                        }
                        let t = mask[rng.below(mask.len() as u64) as usize];
                        script.push_str(&format!("commit({t}); "));
                        if m.consume_token(t).is_err() {
                            panic!("REPLAY-FAIL grammar#{gi}: mask-allowed token {t} rejected on commit after [{script}]");
                        }
                        hist.push(t);
                    }
                }
            }
        }
        println!("verif_replay_rollback: {cases} rollback comparisons ok");
    }

    /// rule-level repetition x{m,n}, x{m,}: accepted counts are exactly the named ones
    #[test]
    fn verif_replay_repeat() {
        let env = ApproximateTokEnv::single_byte_env();
        let mut cases = 0;
        for (m_, n_) in [(0usize, 1usize), (1, 3), (0, 11), (0, 12), (0, 13), (0, 14), (0, 15), (0, 16), (0, 17), (3, 16), (3, 17), (2, 30), (0, 29), (5, 26), (9, 9), (13, 13),
            // counts that are factored more than once by the K = 4 encoding (n >= 36, (n / 4) % 4 != 0) and around them
            (36, 36), (37, 37), (40, 40), (36, 38), (0, 40), (52, 52), (35, 35), (48, 49), (20, 70)] {
            let lark = format!("start: a{{{m_},{n_}}} \"!\"\na: \"x\"\n");
            for k in 0..n_ + 3 {
                let mut mt = mk(&env, &lark);
                let mut ok = true;
                for _ in 0..k {
                    if mt.consume_token(b'x' as TokenId).is_err() {
                        ok = false;
                        break;
                    }
                }
                if ok {
                    ok = mt.consume_token(b'!' as TokenId).is_ok();
                }
                let want = m_ <= k && k <= n_;
                if ok != want {
                    panic!("REPLAY-FAIL a{{{m_},{n_}}} with {k} repetitions: accepted={ok}, expected={want}");
                }
                cases += 1;
            }
        }
        for m_ in [0usize, 1, 7, 12, 13, 36, 40, 53] {
            let lark = format!("start: a{{{m_},}} \"!\"\na: \"x\"\n");
            for k in 0..m_ + 4 {
                let mut mt = mk(&env, &lark);
                let mut ok = true;
                for _ in 0..k {
                    ok = ok && mt.consume_token(b'x' as TokenId).is_ok();
                }
                ok = ok && mt.consume_token(b'!' as TokenId).is_ok();
                if ok != (k >= m_) {
                    panic!("REPLAY-FAIL a{{{m_},}} with {k} repetitions: accepted={ok}");
                }
                cases += 1;
            }
        }
        println!("verif_replay_repeat: {cases} cases ok");
    }

    /// <[^a-b,...]> allows exactly the complement of the listed ranges inside the vocabulary; <[a-b,...]> exactly the ranges
    #[test]
    fn verif_replay_token_ranges() {
        let seed: u64 = std::env::var("VERIF_SEED").ok().and_then(|s| s.parse().ok()).unwrap_or(0);
        let mut rng = Rng(0x9E3779B97F4A7C15 ^ seed.wrapping_mul(0x2545F4914F6CDD1D) | 1);
        let env = ApproximateTokEnv::single_byte_env();
        let n_vocab = env.tok_trie().vocab_size() as u32;
        let mut cases = 0;
        for _ in 0..120 {
            let nr = 1 + rng.below(3) as usize;
            let mut ranges: Vec<(u32, u32)> = vec![];
            for _ in 0..nr {
                let a = rng.below(n_vocab as u64) as u32;
                let b = a + rng.below((n_vocab - a) as u64).min(40) as u32;
                ranges.push((a, b));
            }
            let spec: Vec<String> = ranges.iter().map(|(a, b)| if a == b { format!("{a}") } else { format!("{a}-{b}") }).collect();
            for negated in [true, false] {
                let lark = format!("start: <[{}{}]>\n", if negated { "^" } else { "" }, spec.join(","));
                let mut m = mk(&env, &lark);
                let mask = m.compute_mask().unwrap();
                for t in 0..n_vocab {
                    let listed = ranges.iter().any(|(a, b)| *a <= t && t <= *b);
                    let want = listed != negated;
                    if mask.is_allowed(t) != want {
                        panic!("REPLAY-FAIL {lark:?}: token {t} allowed={} expected={want}", mask.is_allowed(t));
                    }
                }
                cases += 1;
            }
        }
        println!("verif_replay_token_ranges: {cases} cases ok");
    }
}
