// Unit rollback_v: ParserState::rollback (parser/src/earley/parser.rs) on a field-subset of the real struct.
use vstd::prelude::*;

// R3: logging macro defined empty; anyhow's ensure!/bail! = early `return Err(..)` without the message
macro_rules! debug { ($($t:tt)*) => {}; }
macro_rules! ensure { ($c:expr, $($t:tt)*) => { if !($c) { return Err(VErr {}); } }; }

verus! {

global size_of usize == 8; // assumption: 64-bit target (u32 + 1 fits usize)

pub struct VErr {}
pub type Result<T> = core::result::Result<T, VErr>;

// ---- hand-written shims of types the extracted code only stores (never inspects) ----
#[derive(Clone, Copy)]
pub struct StateID { pub v: u32 }
pub struct SimpleVob { pub data: Vec<u32>, pub size: usize }
pub struct GrammarStackNode { pub v: u32 }
pub struct LexerResult { pub v: u32 }

//@@ struct parser/src/earley/parser.rs LexerState fields=row_idx,lexer_state,byte derive=Clone,Copy
//@@ struct parser/src/earley/parser.rs RowInfo fields=start_byte_idx,token_idx_start,token_idx_stop
//@@ struct parser/src/earley/parser.rs Scratch fields=definitive,grammar_stack,log_override
//@@ struct parser/src/earley/parser.rs BiasCache
//@@ struct parser/src/earley/lexerspec.rs LexerSpec fields=has_stop,has_max_tokens
//@@ const parser/src/earley/parser.rs ITEM_TRACE
//@@ struct parser/src/earley/parser.rs ParserState fields=scratch,trie_lexer_stack,trie_grammar_stack,lexer_stack,lexer_stack_top_eos,lexer_stack_flush_position,rows_valid_end,row_infos,token_idx,bytes,byte_to_token_idx,last_force_bytes_len,parser_error,backtrack_byte_count,bias_cache

// R6: reaching a panic!() is a proof failure (requires false)
pub fn verif_panic()
    requires false,
{
}

// assumed std spec (trusted): Option::is_some_and applies the predicate to the payload
pub assume_specification<T, F: FnOnce(T) -> bool> [Option::<T>::is_some_and] (o: Option<T>, f: F) -> (r: bool)
    requires o is Some ==> f.requires((o->0,)),
    ensures r == (o is Some && f.ensures((o->0,), true)), (o is Some && !r) ==> f.ensures((o->0,), false);

impl LexerSpec {
//@@ fn parser/src/earley/lexerspec.rs LexerSpec::can_rollback
//@ ret r
//@ spec
    ensures r == (!self.has_stop && !self.has_max_tokens),
//@ end
}

pub uninterp spec fn lexer_spec_of(s: ParserState) -> LexerSpec;

pub open spec fn row_idx_monotone(ls: Seq<LexerState>) -> bool {
    forall|i: int, j: int| 0 <= i <= j < ls.len() ==> ls[i].row_idx <= ls[j].row_idx
}

impl ParserState {
    /// assumed accessor: `self.grammar.lexer_spec()` (Arc<CGrammar> field dropped by the extraction)
    #[verifier::external_body]
    fn lexer_spec(&self) -> (r: &LexerSpec)
        ensures *r == lexer_spec_of(*self),
    {
        unimplemented!()
    }

    pub open spec fn spec_num_rows(&self) -> int {
        self.lexer_stack@[self.lexer_stack@.len() - 1].row_idx as int + 1
    }

    /// ParserInv of DESIGN.md section 3 (definitive mode)
    pub open spec fn inv(&self) -> bool {
        &&& self.lexer_stack@.len() >= 1
        &&& self.lexer_stack@.len() <= usize::MAX  // type invariant of Vec, stated because Verus does not expose it in spec mode
        &&& self.lexer_stack@.len() == self.bytes@.len() + (if self.lexer_stack_top_eos { 2int } else { 1int })
        &&& self.byte_to_token_idx@.len() <= self.bytes@.len()
        &&& self.row_infos@.len() == self.spec_num_rows()
        &&& self.scratch.definitive
        &&& self.backtrack_byte_count == 0
        &&& row_idx_monotone(self.lexer_stack@)
    }

    /// everything except lexer_stack is unchanged
    pub open spec fn same_but_lexer_stack(&self, o: &ParserState) -> bool {
        &&& self.lexer_stack_top_eos == o.lexer_stack_top_eos && self.rows_valid_end == o.rows_valid_end
        &&& self.row_infos@ == o.row_infos@ && self.token_idx == o.token_idx && self.bytes@ == o.bytes@
        &&& self.byte_to_token_idx@ == o.byte_to_token_idx@ && self.last_force_bytes_len == o.last_force_bytes_len
        &&& self.parser_error == o.parser_error && self.backtrack_byte_count == o.backtrack_byte_count
        &&& self.bias_cache == o.bias_cache && self.scratch == o.scratch
        &&& self.trie_lexer_stack == o.trie_lexer_stack && self.trie_grammar_stack == o.trie_grammar_stack
        &&& self.lexer_stack_flush_position == o.lexer_stack_flush_position
    }
    /// the structures that only definitive mode may change are untouched
    pub open spec fn definitive_part_same(&self, o: &ParserState) -> bool {
        &&& self.lexer_stack_top_eos == o.lexer_stack_top_eos
        &&& self.row_infos@ == o.row_infos@ && self.token_idx == o.token_idx && self.bytes@ == o.bytes@
        &&& self.byte_to_token_idx@ == o.byte_to_token_idx@ && self.last_force_bytes_len == o.last_force_bytes_len
        &&& self.parser_error == o.parser_error && self.backtrack_byte_count == o.backtrack_byte_count
        &&& self.bias_cache == o.bias_cache
    }
    /// inv() of the state obtained by cutting lexer_stack back to trie_lexer_stack and switching to definitive mode
    pub open spec fn definitive_prefix_inv(&self) -> bool {
        let ls = self.lexer_stack@.take(self.trie_lexer_stack as int);
        &&& ls.len() == self.bytes@.len() + (if self.lexer_stack_top_eos { 2int } else { 1int })
        &&& self.byte_to_token_idx@.len() <= self.bytes@.len()
        &&& self.row_infos@.len() == ls[ls.len() - 1].row_idx as int + 1
        &&& self.backtrack_byte_count == 0
        &&& row_idx_monotone(ls)
    }

    pub open spec fn same_as(&self, o: &ParserState) -> bool {
        &&& self.lexer_stack@ == o.lexer_stack@
        &&& self.lexer_stack_top_eos == o.lexer_stack_top_eos
        &&& self.rows_valid_end == o.rows_valid_end
        &&& self.row_infos@ == o.row_infos@
        &&& self.token_idx == o.token_idx
        &&& self.bytes@ == o.bytes@
        &&& self.byte_to_token_idx@ == o.byte_to_token_idx@
        &&& self.last_force_bytes_len == o.last_force_bytes_len
        &&& self.parser_error == o.parser_error
        &&& self.backtrack_byte_count == o.backtrack_byte_count
        &&& self.bias_cache == o.bias_cache
        &&& self.scratch == o.scratch
        &&& self.trie_lexer_stack == o.trie_lexer_stack && self.trie_grammar_stack == o.trie_grammar_stack
        &&& self.lexer_stack_flush_position == o.lexer_stack_flush_position
    }

//@@ fn parser/src/earley/parser.rs ParserState::lexer_state
//@ ret r
//@ spec
    requires self.lexer_stack@.len() >= 1,
    ensures r == self.lexer_stack@[self.lexer_stack@.len() - 1],
//@ end


    // ---- flush_lexer: where the entry it adds to the lexer stack is recorded (the token-range branch of apply_token removes
    // ---- exactly `lexer_stack[lexer_stack_flush_position]` to keep one entry per byte; rollback later cuts the stack by byte count)
    #[verifier::external_body]
    fn has_pending_lexeme_bytes(&self) -> (r: bool) { unimplemented!() }
    /// R29: `self.lexer_mut().try_lexeme_end(st)` (derivre lexer: what ends the pending lexeme) as one opaque call
    #[verifier::external_body]
    fn verif_try_lexeme_end(&mut self, st: StateID) -> (r: LexerResult)
        ensures *final(self) == *old(self),
    { unimplemented!() }
    /// ASSUMED (Earley side): feeding a forced lexeme end either leaves the lexer stack alone or pushes exactly one entry on top of it,
    /// does not touch the recorded flush position and asks for no backtracking
    #[verifier::external_body]
    fn advance_lexer_or_parser(&mut self, lex_result: LexerResult, curr: LexerState) -> (r: bool)
        ensures
            final(self).lexer_stack@ == old(self).lexer_stack@
                || (final(self).lexer_stack@.len() == old(self).lexer_stack@.len() + 1
                    && final(self).lexer_stack@.take(old(self).lexer_stack@.len() as int) == old(self).lexer_stack@),
            final(self).lexer_stack_flush_position == old(self).lexer_stack_flush_position,
            final(self).backtrack_byte_count == old(self).backtrack_byte_count,
    { unimplemented!() }

//@@ fn parser/src/earley/parser.rs ParserState::flush_lexer
//@ ret r
//@ rewrite R29 :: self.lexer_mut().try_lexeme_end(curr.lexer_state) ==> self.verif_try_lexeme_end(curr.lexer_state)
//@ spec
    requires old(self).lexer_stack@.len() >= 1, old(self).backtrack_byte_count == 0,
    ensures
        // at most one entry is added, on top, and then the recorded position IS the index of that entry
        final(self).lexer_stack@ == old(self).lexer_stack@
            || (final(self).lexer_stack@.len() == old(self).lexer_stack@.len() + 1
                && final(self).lexer_stack@.take(old(self).lexer_stack@.len() as int) == old(self).lexer_stack@
                && final(self).lexer_stack_flush_position == final(self).lexer_stack@.len() - 1
                && final(self).lexer_stack_flush_position >= 1),
        final(self).lexer_stack@ == old(self).lexer_stack@ ==> final(self).lexer_stack_flush_position == old(self).lexer_stack_flush_position,
//@ end

//@@ fn parser/src/earley/parser.rs ParserState::num_rows
//@ ret r
//@ spec
    requires self.lexer_stack@.len() >= 1,
    ensures r == self.spec_num_rows(),
//@ end

//@@ fn parser/src/earley/parser.rs ParserState::check_lexer_bytes_invariant
//@ rewrite R6 :: panic!( "lexer_stack={:?} bytes={:?} {}!={}+{off}", self.lexer_stack, String::from_utf8_lossy(&self.bytes), self.lexer_stack.len(), self.bytes.len() ); ==> verif_panic();
//@ spec
    requires self.lexer_stack@.len() == self.bytes@.len() + (if self.lexer_stack_top_eos { 2int } else { 1int }),
//@ end

//@@ fn parser/src/earley/parser.rs ParserState::assert_definitive_inner
//@ rewrite R6 :: panic!( "num_rows={} row_infos={}", self.num_rows(), self.row_infos.len() ); ==> verif_panic();
//@ spec
    requires self.lexer_stack@.len() >= 1, self.scratch.definitive, self.backtrack_byte_count == 0,
        self.row_infos@.len() == self.spec_num_rows(),
//@ end

//@@ fn parser/src/earley/parser.rs ParserState::assert_definitive
//@ spec
    requires self.inv(),
//@ end

//@@ fn parser/src/earley/parser.rs ParserState::pop_lexer_states
//@ spec
    ensures final(self).lexer_stack@ == old(self).lexer_stack@.take(if n <= old(self).lexer_stack@.len() { old(self).lexer_stack@.len() - n } else { 0 }),
        final(self).same_but_lexer_stack(old(self)),
//@ end

// R12: `if ITEM_TRACE { .. }` blocks are removed: ITEM_TRACE is the constant `false` (extracted above and checked below)
//@@ fn parser/src/earley/parser.rs ParserState::trie_started_inner
//@ rewrite R12 :: if ITEM_TRACE { self.trace_stats0 = self.stats.clone(); self.trace_start = Instant::now(); self.trace_byte_stack.clear(); item_trace!("trie started; {}", lbl); } ==> proof { assert(!ITEM_TRACE); }
//@ spec
    requires old(self).inv(),
    ensures
        // the speculative walk starts exactly at the definitive state: remembers where the stacks were, touches nothing else
        final(self).trie_lexer_stack == old(self).lexer_stack@.len(),
        final(self).trie_grammar_stack == old(self).scratch.grammar_stack@.len(),
        !final(self).scratch.definitive,
        final(self).lexer_stack@ == old(self).lexer_stack@,
        final(self).rows_valid_end == final(self).spec_num_rows(),
        final(self).definitive_part_same(old(self)),
//@ end

//@@ fn parser/src/earley/parser.rs ParserState::trie_finished_inner
//@ rewrite R12 :: if ITEM_TRACE { let mut st = self.stats.clone(); st.lexer_cost = self.lexer().dfa.total_fuel_spent(); st = st.delta(&self.trace_stats0); st.compute_time_us = self.trace_start.elapsed().as_micros() as u64; item_trace!("trie finished: {}", serde_json::to_string(&st).unwrap()); self.trace_byte_stack.clear(); } ==> proof { assert(!ITEM_TRACE); }
//@ spec
    requires
        !old(self).scratch.definitive,
        old(self).trie_lexer_stack >= 1, old(self).trie_lexer_stack <= old(self).lexer_stack@.len(),
        old(self).trie_grammar_stack <= old(self).scratch.grammar_stack@.len(),
        old(self).row_infos@.len() <= old(self).spec_num_rows(), // speculative rows sit on top of the definitive ones
        // the part of the state below the walk's start is the definitive state it started from
        old(self).definitive_prefix_inv(),
    ensures
        // every speculative push is undone: both stacks are cut back to where trie_started found them
        final(self).lexer_stack@ == old(self).lexer_stack@.take(old(self).trie_lexer_stack as int),
        final(self).scratch.grammar_stack@ == old(self).scratch.grammar_stack@.take(old(self).trie_grammar_stack as int),
        final(self).scratch.definitive, !final(self).scratch.log_override,
        final(self).rows_valid_end == final(self).spec_num_rows(),
        final(self).lexer_stack_flush_position == 0,
        final(self).inv(),
        final(self).definitive_part_same(old(self)),
//@ after self.scratch.grammar_stack.truncate(self.trie_grammar_stack);
    let ghost mid = *self;
//@ after self.pop_lexer_states(self.lexer_stack.len() - self.trie_lexer_stack);
    proof {
        assert(self.lexer_stack@ == old(self).lexer_stack@.take(old(self).trie_lexer_stack as int));
        assert(row_idx_monotone(self.lexer_stack@));
    }
//@ end

//@@ fn parser/src/earley/parser.rs ParserState::rollback
//@ ret res
//@ spec
    requires old(self).inv(),
    ensures
        match res {
            Ok(()) => {
                let new_len = old(self).byte_to_token_idx@.len() - n_bytes;
                &&& n_bytes <= old(self).byte_to_token_idx@.len()
                &&& old(self).parser_error is None
                // every per-byte structure is cut back to the same byte length, contents of the kept prefix unchanged
                &&& final(self).byte_to_token_idx@ == old(self).byte_to_token_idx@.take(new_len)
                &&& final(self).bytes@ == old(self).bytes@.take(new_len)
                &&& final(self).lexer_stack@ == old(self).lexer_stack@.take(new_len + 1)
                &&& final(self).row_infos@ == old(self).row_infos@.take(final(self).spec_num_rows())
                &&& final(self).spec_num_rows() <= old(self).spec_num_rows()
                &&& final(self).token_idx == (if new_len > 0 { old(self).byte_to_token_idx@[new_len - 1] as usize } else { 0usize })
                &&& final(self).last_force_bytes_len == usize::MAX
                &&& !final(self).lexer_stack_top_eos
                // no Earley row beyond the restored table stays valid, no forced bytes survive, no cached mask survives
                &&& final(self).rows_valid_end == final(self).spec_num_rows()
                // cache_live: a cached mask that survives refers to an Earley row that survived (and is the old entry)
                &&& ((final(self).bias_cache is None) || (final(self).bias_cache == old(self).bias_cache
                        && (n_bytes == 0 || (final(self).bias_cache->0.row_idx as int) < final(self).spec_num_rows())))
                &&& final(self).inv()
                &&& final(self).parser_error == old(self).parser_error
                &&& final(self).scratch == old(self).scratch
            },
            Err(_) => final(self).same_as(old(self)),
        },
//@ before self.lexer_stack.truncate(new_len + 1);
    proof {
        assert(self.lexer_stack@.len() == old(self).lexer_stack@.len());
    }
//@ after self.lexer_stack.truncate(new_len + 1);
    proof {
        assert(self.lexer_stack@ == old(self).lexer_stack@.take(new_len + 1));
        assert(row_idx_monotone(self.lexer_stack@));
        assert(self.spec_num_rows() <= old(self).spec_num_rows());
    }
//@ end
}


/// must FAIL: flush_lexer may add an entry
pub fn must_fail_flush_never_pushes(s: &mut ParserState)
    requires old(s).lexer_stack@.len() >= 1, old(s).backtrack_byte_count == 0,
{
    let ghost n = s.lexer_stack@.len();
    let _ = s.flush_lexer();
    assert(s.lexer_stack@.len() == n);
}
// vacuity guard: a deliberately false lemma that must be REJECTED (shows inv() is satisfiable and the solver is alive)
pub proof fn must_fail_inv_implies_empty(s: ParserState)
    requires s.inv(),
    ensures s.bytes@.len() == 0,
{
}

/// witness: inv() is satisfiable (precondition of rollback is not vacuous)
pub proof fn witness_inv_satisfiable(s: ParserState)
    requires
        s.lexer_stack@.len() == 1, s.bytes@.len() == 0, s.byte_to_token_idx@.len() == 0, !s.lexer_stack_top_eos,
        s.row_infos@.len() == s.lexer_stack@[0].row_idx + 1, s.scratch.definitive, s.backtrack_byte_count == 0,
    ensures s.inv(),
{
}

} // verus!
fn main() {}
