//@@ append parser/src/ffi_par.rs
// Unit ffi_k (Kani path B): the real copy / zero-fill / EOS-bit statement span of `par_compute_mask_inner`
// evaluated inside a harness that supplies the free names through shim types.  The SimpleVob is the real one.
#[cfg(kani)]
mod verif_kani_ffi_par {
    use toktrie::SimpleVob;

    //@@ span parser/src/ffi_par.rs par_copy_span :: let mut num_copied = 0; ::: @block_end

    struct ShimErr;
    impl ShimErr {
        fn to_string(&self) -> String {
            String::new()
        }
    }
    struct ShimTrie {
        eos: u32,
    }
    impl ShimTrie {
        fn eos_token(&self) -> u32 {
            self.eos
        }
    }
    struct ShimRes {
        sample_mask: Option<SimpleVob>,
        stop: bool,
    }
    impl ShimRes {
        fn is_stop(&self) -> bool {
            self.stop
        }
    }
    struct ShimConstraint {
        trie: ShimTrie,
        fail: bool,
        res: ShimRes,
    }
    impl ShimConstraint {
        fn tok_trie(&self) -> &ShimTrie {
            &self.trie
        }
        fn compute_mask(&mut self) -> Result<&ShimRes, ShimErr> {
            if self.fail {
                Err(ShimErr)
            } else {
                Ok(&self.res)
            }
        }
    }
    struct ShimCc {
        errors: usize,
    }
    impl ShimCc {
        fn set_error(&mut self, _msg: &str) {
            self.errors += 1;
        }
    }
    struct ShimStep {
        mask_dest: *mut u32,
    }

    const CANARY: u32 = 0xA5A5_5A5A;

    // Kani 0.68 does not model the *contents* written by ptr::write_bytes / ptr::copy_nonoverlapping when the count is
    // not a constant (measured: both leave the destination unconstrained).  They are stubbed by element loops with the
    // documented semantics; CBMC's pointer checks apply to every access of the loops, so out-of-bounds source reads and
    // destination writes are still reported.  (assumption: these two stubs = the std functions)
    unsafe fn stub_write_bytes<T>(dst: *mut T, val: u8, count: usize) {
        let p = dst as *mut u8;
        let n = count * core::mem::size_of::<T>();
        let mut i = 0;
        while i < n {
            *p.add(i) = val;
            i += 1;
        }
    }
    unsafe fn stub_copy_nonoverlapping<T>(src: *const T, dst: *mut T, count: usize) {
        let mut i = 0;
        while i < count {
            *dst.add(i) = core::ptr::read(src.add(i));
            i += 1;
        }
    }

    /// W = number of words of the engine's mask (= ceil((vocab+1)/32), as produced by alloc_token_set),
    /// K = mask_byte_len / 4 = words in the caller's buffer (concrete per harness: Kani 0.68 havocs
    /// `write_bytes` with a symbolic count); the buffer is followed by one canary word.
    fn run<const W: usize, const K: usize, const KP1: usize>() {
        let vocab: usize = kani::any();
        kani::assume(vocab >= 1 && vocab < 4096);
        kani::assume((vocab + 1).div_ceil(32) == W);
        // same layout as TokTrie::alloc_token_set(): size = vocab, capacity = vocab + 1
        let mut m = SimpleVob::alloc_with_capacity(vocab, 32 * W);
        let mut i = 0;
        while i < 32 * W {
            if kani::any::<bool>() && i < vocab {
                m.allow_token(i as u32);
            }
            i += 1;
        }
        let src: [u32; W] = core::array::from_fn(|w| m.as_slice()[w]);
        let has_mask: bool = kani::any();
        let eos: u32 = kani::any();
        kani::assume((eos as usize) < vocab || eos == u32::MAX);
        let mut constraint_v = ShimConstraint {
            trie: ShimTrie { eos },
            fail: kani::any(),
            res: ShimRes { sample_mask: if has_mask { Some(m) } else { None }, stop: kani::any() },
        };
        let constraint = &mut constraint_v;
        let mut cc_v = ShimCc { errors: 0 };
        let cc = &mut cc_v;
        let mut dest = [CANARY; KP1];
        let k: usize = K;
        let mask_elts = k;
        let step = ShimStep { mask_dest: dest.as_mut_ptr() };
        let failed = constraint.fail;
        let stop = constraint.res.stop;

        /*@@paste par_copy_span*/

        kani::cover!(has_mask && !failed && stop);
        // postconditions, at a symbolic word index
        let w: usize = kani::any();
        kani::assume(w < KP1);
        let got = dest[w];
        if w >= k {
            assert!(got == CANARY); // nothing written outside the caller's buffer
        } else {
            let copied = if has_mask && !failed && w < W { src[w] } else { 0 };
            let eos_bit = if !failed && stop && (eos as usize) / 32 == w { 1u32 << (eos % 32) } else { 0 };
            assert!(got == copied | eos_bit); // exactly the mask words, zero fill, EOS bit only on stop
            // only bits of real token ids
            let b: u32 = kani::any();
            kani::assume(b < 32);
            if got & (1 << b) != 0 {
                assert!(32 * w + (b as usize) < vocab);
            }
        }
        let want_errors = if failed { 1 } else { 0 };
        assert!(cc.errors == want_errors);
    }

    macro_rules! par_copy {
        ($name:ident, $w:expr, $k:expr, $unw:expr) => {
            #[kani::proof]
            #[kani::unwind($unw)]
            #[kani::stub(std::ptr::write_bytes, stub_write_bytes)]
            #[kani::stub(std::ptr::copy_nonoverlapping, stub_copy_nonoverlapping)]
            fn $name() {
                run::<$w, $k, { $k + 1 }>();
            }
        };
    }
    par_copy!(par_copy_w1_k0, 1, 0, 34);
    par_copy!(par_copy_w1_k1, 1, 1, 34);
    par_copy!(par_copy_w1_k2, 1, 2, 34);
    par_copy!(par_copy_w1_k3, 1, 3, 34);
    par_copy!(par_copy_w2_k1, 2, 1, 66);
    par_copy!(par_copy_w2_k2, 2, 2, 66);
    par_copy!(par_copy_w2_k3, 2, 3, 66);
    par_copy!(par_copy_w2_k4, 2, 4, 66);
    par_copy!(par_copy_w3_k2, 3, 2, 98);
    par_copy!(par_copy_w3_k3, 3, 3, 98);
    par_copy!(par_copy_w3_k4, 3, 4, 98);
    par_copy!(par_copy_w3_k5, 3, 5, 98);

    // vacuity guard: must FAIL (claims the EOS bit is never added)
    #[kani::proof]
    #[kani::unwind(34)]
    #[kani::stub(std::ptr::write_bytes, stub_write_bytes)]
    #[kani::stub(std::ptr::copy_nonoverlapping, stub_copy_nonoverlapping)]
    fn mustfail_par_copy_no_eos() {
        let mut m = SimpleVob::alloc_with_capacity(20, 32);
        let eos: u32 = kani::any();
        kani::assume(eos < 20);
        let mut constraint_v = ShimConstraint { trie: ShimTrie { eos }, fail: false, res: ShimRes { sample_mask: Some(m), stop: kani::any() } };
        let constraint = &mut constraint_v;
        let mut cc_v = ShimCc { errors: 0 };
        let cc = &mut cc_v;
        let mut dest = [CANARY; 1];
        let mask_elts = 1usize;
        let step = ShimStep { mask_dest: dest.as_mut_ptr() };
        /*@@paste par_copy_span*/
        assert!(dest[0] == 0);
    }
}
