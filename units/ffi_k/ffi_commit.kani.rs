//@@ append parser/src/ffi.rs
// Unit ffi_k (Kani path B): llg_commit_token - the token id range check in front of the commit and the lifetime of the result:
// an id outside the vocabulary reaches the engine as "no token" (never as an id), the commit result handed to C points into the copy
// the constraint keeps (so it survives until the next call), and a failed commit drops the constraint and reports -1.
#[cfg(kani)]
mod verif_kani_ffi_commit {
    use super::{LlgCommitResult, LlgToken};
    use crate::constraint::CommitResult;

    //@@ fnspan parser/src/ffi.rs commit_fn llg_commit_token
    //@@ fnspan parser/src/ffi.rs get_error_code_fn LlgConstraint::get_error_code
    //@@ fnspan parser/src/ffi.rs set_error_fn LlgConstraint::set_error

    struct ShimError;
    impl ShimError {
        fn to_string(&self) -> String {
            String::new()
        }
    }
    type Result<T> = core::result::Result<T, ShimError>;
    fn make_c_string(_e: &str) -> u8 {
        1
    }
    struct ShimTrie {
        vocab: usize,
    }
    impl ShimTrie {
        fn vocab_size(&self) -> usize {
            self.vocab
        }
    }
    struct ShimEnv {
        trie: ShimTrie,
    }
    impl ShimEnv {
        fn tok_trie(&self) -> &ShimTrie {
            &self.trie
        }
    }
    struct ShimTP {
        token_env: ShimEnv,
    }
    struct ShimConstraint {
        parser: ShimTP,
        seen: Option<Option<u32>>,
        answer: Option<Result<CommitResult>>,
    }
    impl ShimConstraint {
        fn commit_token(&mut self, t: Option<u32>) -> Result<CommitResult> {
            self.seen = Some(t);
            self.answer.take().unwrap()
        }
    }
    struct LlgConstraint {
        constraint: Option<ShimConstraint>,
        last_commit_result: CommitResult,
        local_error: Option<u8>,
    }
    impl LlgConstraint {
        /*@@paste get_error_code_fn*/
        /*@@paste set_error_fn*/
    }
    /*@@paste commit_fn s/#[no_mangle]//*/

    #[kani::proof]
    #[kani::unwind(4)]
    fn ffi_commit_token_range_and_lifetime() {
        let vocab: usize = kani::any();
        kani::assume(vocab >= 1 && vocab <= u32::MAX as usize);
        let fail: bool = kani::any();
        let n_ff: usize = kani::any();
        kani::assume(n_ff <= 2);
        let mut ff = Vec::with_capacity(2);
        let a: [u32; 2] = kani::any();
        let mut i = 0;
        while i < 2 {
            if i < n_ff {
                ff.push(a[i]);
            }
            i += 1;
        }
        let stop: bool = kani::any();
        let answer = if fail { Err(ShimError) } else { Ok(CommitResult { stop, backtrack: 0, ff_tokens: ff }) };
        let mut cc = LlgConstraint {
            constraint: Some(ShimConstraint {
                parser: ShimTP { token_env: ShimEnv { trie: ShimTrie { vocab } } },
                seen: None,
                answer: Some(answer),
            }),
            last_commit_result: CommitResult { stop: false, backtrack: 0, ff_tokens: Vec::new() },
            local_error: None,
        };
        let token: LlgToken = kani::any();
        let mut res = LlgCommitResult { tokens: core::ptr::null(), n_tokens: 77, is_stop: false };
        let rc = llg_commit_token(&mut cc, token, &mut res);
        if fail {
            assert!(rc == -1 && cc.constraint.is_none() && res.n_tokens == 77);
        } else {
            assert!(rc == 0);
            let c = cc.constraint.as_ref().unwrap();
            // the engine saw the id only if it names a real token
            if (token as usize) < vocab {
                assert!(c.seen == Some(Some(token)));
            } else {
                assert!(c.seen == Some(None));
            }
            // the result points into the copy kept by the constraint
            assert!(res.n_tokens as usize == n_ff && res.is_stop == stop);
            assert!(cc.last_commit_result.ff_tokens.len() == n_ff);
            if n_ff == 0 {
                assert!(res.tokens.is_null());
            } else {
                assert!(res.tokens == cc.last_commit_result.ff_tokens.as_ptr());
                assert!(unsafe { *res.tokens } == a[0]);
            }
        }
    }

    // vacuity guard (must FAIL): claims the engine always sees the id
    #[kani::proof]
    #[kani::unwind(4)]
    fn mustfail_ffi_commit_always_some() {
        let vocab: usize = kani::any();
        kani::assume(vocab >= 1 && vocab <= u32::MAX as usize);
        let mut cc = LlgConstraint {
            constraint: Some(ShimConstraint {
                parser: ShimTP { token_env: ShimEnv { trie: ShimTrie { vocab } } },
                seen: None,
                answer: Some(Ok(CommitResult { stop: false, backtrack: 0, ff_tokens: Vec::new() })),
            }),
            last_commit_result: CommitResult { stop: false, backtrack: 0, ff_tokens: Vec::new() },
            local_error: None,
        };
        let token: LlgToken = kani::any();
        let mut res = LlgCommitResult { tokens: core::ptr::null(), n_tokens: 0, is_stop: false };
        let _ = llg_commit_token(&mut cc, token, &mut res);
        assert!(cc.constraint.as_ref().unwrap().seen == Some(Some(token)));
    }
}
