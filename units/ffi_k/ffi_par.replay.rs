//@@ append parser/src/ffi_par.rs
// Replay / differential harness for unit ffi_k: the same real statement span, run natively on seeded inputs.
#[cfg(test)]
mod verif_replay_ffi_par {
    use toktrie::SimpleVob;

    //@@ span parser/src/ffi_par.rs par_copy_span :: let mut num_copied = 0; ::: @block_end

    struct ShimErr;
    impl ShimErr {
        fn to_string(&self) -> String {
            String::new()
        }
    }
    struct ShimTrie {
        eos: u32,
    }
    impl ShimTrie {
        fn eos_token(&self) -> u32 {
            self.eos
        }
    }
    struct ShimRes {
        sample_mask: Option<SimpleVob>,
        stop: bool,
    }
    impl ShimRes {
        fn is_stop(&self) -> bool {
            self.stop
        }
    }
    struct ShimConstraint {
        trie: ShimTrie,
        fail: bool,
        res: ShimRes,
    }
    impl ShimConstraint {
        fn tok_trie(&self) -> &ShimTrie {
            &self.trie
        }
        fn compute_mask(&mut self) -> Result<&ShimRes, ShimErr> {
            if self.fail {
                Err(ShimErr)
            } else {
                Ok(&self.res)
            }
        }
    }
    struct ShimCc {
        errors: usize,
    }
    impl ShimCc {
        fn set_error(&mut self, _msg: &str) {
            self.errors += 1;
        }
    }
    struct ShimStep {
        mask_dest: *mut u32,
    }

    const CANARY: u32 = 0xA5A5_5A5A;

    struct Rng(u64);
    impl Rng {
        fn next(&mut self) -> u64 {
            self.0 ^= self.0 << 13;
            self.0 ^= self.0 >> 7;
            self.0 ^= self.0 << 17;
            self.0
        }
    }

    fn one(vocab: usize, bits: &[bool], has_mask: bool, eos: u32, fail: bool, stop: bool, k: usize) -> Result<(), String> {
        let w_src = (vocab + 1).div_ceil(32);
        // the source mask lives in an exactly-sized heap allocation followed (in a separate allocation pattern) by poison,
        // so an over-read shows up as poison bits in the destination
        let mut m = SimpleVob::alloc_with_capacity(vocab, vocab + 1);
        for (i, b) in bits.iter().enumerate() {
            if *b && i < vocab {
                m.allow_token(i as u32);
            }
        }
        let src: Vec<u32> = m.as_slice().to_vec();
        assert_eq!(src.len(), w_src);
        let mut constraint_v = ShimConstraint { trie: ShimTrie { eos }, fail, res: ShimRes { sample_mask: if has_mask { Some(m) } else { None }, stop } };
        let constraint = &mut constraint_v;
        let mut cc_v = ShimCc { errors: 0 };
        let cc = &mut cc_v;
        let mut dest = vec![CANARY; k + 2];
        let mask_elts = k;
        let step = ShimStep { mask_dest: dest.as_mut_ptr() };
        let failed = fail;

        /*@@paste par_copy_span*/

        for w in 0..k + 2 {
            let got = dest[w];
            if w >= k {
                if got != CANARY {
                    return Err(format!("word {w} outside the caller's buffer (k={k}) was written: {got:#x}"));
                }
            } else {
                let copied = if has_mask && !failed && w < w_src { src[w] } else { 0 };
                let eos_bit = if !failed && stop && (eos as usize) / 32 == w { 1u32 << (eos % 32) } else { 0 };
                if got != copied | eos_bit {
                    return Err(format!("word {w}: got {got:#x}, expected {:#x} (vocab={vocab} k={k} has_mask={has_mask} fail={fail} stop={stop} eos={eos})", copied | eos_bit));
                }
                for b in 0..32 {
                    if got & (1 << b) != 0 && 32 * w + b >= vocab {
                        return Err(format!("bit {} set but vocab is {vocab}", 32 * w + b));
                    }
                }
            }
        }
        if cc.errors != if failed { 1 } else { 0 } {
            return Err("error count".to_string());
        }
        Ok(())
    }

    #[test]
    fn verif_replay_par_copy() {
        let seed: u64 = std::env::var("VERIF_SEED").ok().and_then(|s| s.parse().ok()).unwrap_or(0);
        let mut rng = Rng(0x9E3779B97F4A7C15 ^ seed.wrapping_mul(0x2545F4914F6CDD1D) | 1);
        // the concrete counterexample reported by Kani during development
        one(2, &[false; 32], true, 0, true, true, 1).unwrap_or_else(|e| panic!("REPLAY-FAIL {e}"));
        let mut n = 0;
        for vocab in (1..=130).chain([255, 256, 257, 1000]) {
            let w_src = (vocab + 1usize).div_ceil(32);
            for k in 0..w_src + 4 {
                for _ in 0..6 {
                    let r = rng.next();
                    let bits: Vec<bool> = (0..vocab).map(|_| rng.next() & 1 == 1).collect();
                    let eos = if r & 7 == 0 { u32::MAX } else { (rng.next() % vocab as u64) as u32 };
                    if let Err(e) = one(vocab, &bits, r & 8 != 0 || r & 48 != 0, eos, r & 64 != 0 && r & 128 != 0, r & 256 != 0, k) {
                        panic!("REPLAY-FAIL ffi_par copy span: {e}");
                    }
                    n += 1;
                }
            }
        }
        println!("verif_replay_par_copy: {n} cases ok");
    }
}
