//@@ append parser/src/ffi.rs
// Unit ffi_k (Kani path B): the saved-mask protocol of the C matcher - llg_matcher_compute_mask stores the engine's mask,
// llg_matcher_get_mask hands out a pointer into it, read-only calls (validate_tokens, is_accepting) leave it alone, state-changing
// calls (consume_token, rollback, reset) drop it whether or not they succeed.  Whole real fn items in a shim environment.
#[cfg(kani)]
mod verif_kani_ffi_mask {
    use super::slice_from_ptr_or_empty;

    //@@ fnspan parser/src/ffi.rs wrap_fn LlgMatcher::wrap
    //@@ fnspan parser/src/ffi.rs clear_mask_fn LlgMatcher::clear_mask
    //@@ fnspan parser/src/ffi.rs compute_mask_fn llg_matcher_compute_mask
    //@@ fnspan parser/src/ffi.rs get_mask_fn llg_matcher_get_mask
    //@@ fnspan parser/src/ffi.rs consume_token_fn llg_matcher_consume_token
    //@@ fnspan parser/src/ffi.rs rollback_fn llg_matcher_rollback
    //@@ fnspan parser/src/ffi.rs reset_fn llg_matcher_reset
    //@@ fnspan parser/src/ffi.rs validate_fn llg_matcher_validate_tokens
    //@@ fnspan parser/src/ffi.rs is_accepting_fn llg_matcher_is_accepting

    struct ShimError;
    impl ShimError {
        fn to_string(&self) -> u8 {
            0
        }
    }
    type Result<T> = core::result::Result<T, ShimError>;
    fn make_c_string(_e: u8) -> u8 {
        1
    }
    /// stands for SimpleVob: one word of mask data behind a stable heap address
    struct ShimMask {
        data: Box<u32>,
    }
    impl ShimMask {
        fn as_ptr(&self) -> *const u32 {
            &*self.data as *const u32
        }
    }
    /// stands for Matcher: every call may fail; the engine's mask is a fresh value each time
    struct Matcher {
        err: bool,
        calls: usize,
    }
    impl Matcher {
        fn is_error(&self) -> bool {
            self.err
        }
        fn outcome(&mut self) -> Result<()> {
            self.calls += 1;
            if kani::any() {
                Ok(())
            } else {
                self.err = kani::any();
                Err(ShimError)
            }
        }
        fn compute_mask_or_eos(&mut self) -> Result<ShimMask> {
            self.outcome()?;
            Ok(ShimMask { data: Box::new(kani::any()) })
        }
        fn consume_token(&mut self, _t: u32) -> Result<()> {
            self.outcome()
        }
        fn rollback(&mut self, _n: usize) -> Result<()> {
            self.outcome()
        }
        fn reset(&mut self) -> Result<()> {
            self.outcome()
        }
        fn validate_tokens(&mut self, _t: &[u32]) -> Result<usize> {
            self.outcome()?;
            Ok(kani::any())
        }
        fn is_accepting(&mut self) -> Result<bool> {
            self.outcome()?;
            Ok(kani::any())
        }
    }
    struct LlgMatcher {
        last_error: Option<u8>,
        matcher: Matcher,
        saved_mask: Option<ShimMask>,
    }
    impl LlgMatcher {
        /*@@paste wrap_fn*/
        /*@@paste clear_mask_fn*/
    }
    /*@@paste compute_mask_fn s/#[no_mangle]//*/
    /*@@paste get_mask_fn s/#[no_mangle]//*/
    /*@@paste consume_token_fn s/#[no_mangle]//*/
    /*@@paste rollback_fn s/#[no_mangle]//*/
    /*@@paste reset_fn s/#[no_mangle]//*/
    /*@@paste validate_fn s/#[no_mangle]//*/
    /*@@paste is_accepting_fn s/#[no_mangle]//*/

    fn fresh() -> LlgMatcher {
        LlgMatcher { last_error: None, matcher: Matcher { err: kani::any(), calls: 0 }, saved_mask: None }
    }

    /// compute_mask: 0 <=> a mask is saved and get_mask points into it; -1 <=> get_mask is null (also when an older mask existed)
    #[kani::proof]
    fn ffi_mask_compute_then_get() {
        let mut m = fresh();
        if kani::any() {
            m.saved_mask = Some(ShimMask { data: Box::new(7) });
        }
        let was_err = m.matcher.err;
        let rc = llg_matcher_compute_mask(&mut m);
        let p = llg_matcher_get_mask(&mut m);
        kani::cover!(rc == 0);
        kani::cover!(rc == -1);
        assert!(rc == 0 || rc == -1);
        if rc == 0 {
            assert!(!was_err && !p.is_null());
            assert!(p == m.saved_mask.as_ref().unwrap().as_ptr());
            // asking again gives the same pointer
            assert!(llg_matcher_get_mask(&mut m) == p);
        } else {
            assert!(p.is_null());
        }
        if was_err {
            assert!(rc == -1 && m.matcher.calls == 0); // a failed engine is not asked
        }
    }

    /// read-only calls keep the saved mask; state-changing calls drop it, successful or not
    #[kani::proof]
    fn ffi_mask_survives_queries_only() {
        let mut m = fresh();
        let rc = llg_matcher_compute_mask(&mut m);
        kani::assume(rc == 0);
        let p0 = llg_matcher_get_mask(&mut m);
        let word0 = unsafe { *p0 };
        let op: u8 = kani::any();
        kani::assume(op < 5);
        let toks = [1u32, 2];
        match op {
            0 => {
                let r = unsafe { llg_matcher_validate_tokens(&mut m, toks.as_ptr(), 2) };
                assert!(r >= -1);
            }
            1 => {
                let _ = llg_matcher_is_accepting(&mut m);
            }
            2 => {
                let _ = llg_matcher_consume_token(&mut m, 3);
            }
            3 => {
                let _ = llg_matcher_rollback(&mut m, 1);
            }
            _ => {
                let _ = llg_matcher_reset(&mut m);
            }
        }
        let p1 = llg_matcher_get_mask(&mut m);
        if op <= 1 {
            // same state, same mask: the pointer C holds stays valid and the data is untouched
            assert!(p1 == p0);
            assert!(unsafe { *p1 } == word0);
        } else {
            // the state (may have) changed: the old mask must not be handed out again
            assert!(p1.is_null());
        }
    }

    // vacuity guard (must FAIL): claims the mask survives every call
    #[kani::proof]
    fn mustfail_ffi_mask_survives_everything() {
        let mut m = fresh();
        let rc = llg_matcher_compute_mask(&mut m);
        kani::assume(rc == 0);
        let _ = llg_matcher_consume_token(&mut m, 3);
        assert!(!llg_matcher_get_mask(&mut m).is_null());
    }
}
