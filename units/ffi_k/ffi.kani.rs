//@@ append parser/src/ffi.rs
// Unit ffi_k (Kani path B): the real statements of the closure of llg_matcher_compute_mask_into (size check + copy).
#[cfg(kani)]
mod verif_kani_ffi_matcher {
    use toktrie::SimpleVob;

    //@@ fnspan parser/src/ffi.rs into_fn llg_matcher_compute_mask_into
    //@@ fnspan parser/src/ffi.rs mask_elts_fn LlgMatcher::mask_elts
    //@@ fnspan parser/src/ffi.rs byte_size_fn llg_matcher_get_mask_byte_size

    struct ShimError;
    type Result<T> = core::result::Result<T, ShimError>;
    macro_rules! ensure {
        ($c:expr, $($t:tt)*) => {
            if !($c) {
                return Err(ShimError);
            }
        };
    }
    unsafe fn stub_copy_nonoverlapping<T>(src: *const T, dst: *mut T, count: usize) {
        let mut i = 0;
        while i < count {
            *dst.add(i) = core::ptr::read(src.add(i));
            i += 1;
        }
    }
    const CANARY: u32 = 0xA5A5_5A5A;

    // shim environment of the real functions: the matcher yields a (real) SimpleVob; wrap() maps Err to -1
    struct ShimTrie {
        vocab: usize,
    }
    impl ShimTrie {
        fn vocab_size(&self) -> usize {
            self.vocab
        }
    }
    struct ShimEnv {
        trie: ShimTrie,
    }
    impl ShimEnv {
        fn tok_trie(&self) -> &ShimTrie {
            &self.trie
        }
    }
    struct ShimMatcher {
        mask: Option<SimpleVob>,
    }
    impl ShimMatcher {
        fn compute_mask_or_eos(&mut self) -> Result<SimpleVob> {
            match self.mask.take() {
                Some(v) => Ok(v),
                None => Err(ShimError),
            }
        }
    }
    struct LlgMatcher {
        tok_env: ShimEnv,
        matcher: ShimMatcher,
    }
    impl LlgMatcher {
        fn wrap(&mut self, f: impl FnOnce(&mut ShimMatcher) -> Result<i32>) -> i32 {
            match f(&mut self.matcher) {
                Ok(v) => v,
                Err(_) => -1,
            }
        }
        /*@@paste mask_elts_fn*/
    }
    /*@@paste byte_size_fn s/#[no_mangle]//*/
    /*@@paste into_fn s/#[no_mangle]//*/

    fn body(vob: SimpleVob, vocab: usize, mask_dest: *mut u32, mask_byte_len: usize, fail: bool) -> i32 {
        let mut m = LlgMatcher { tok_env: ShimEnv { trie: ShimTrie { vocab } }, matcher: ShimMatcher { mask: if fail { None } else { Some(vob) } } };
        unsafe { llg_matcher_compute_mask_into(&mut m, mask_dest, mask_byte_len) }
    }

    /// W = words of the engine's mask as alloc_token_set lays it out; n_elts = ceil(vocab/32) as LlgMatcher::mask_elts computes it
    fn run<const W: usize, const KP1: usize>() {
        let vocab: usize = kani::any();
        kani::assume(vocab >= 1 && vocab < 4096);
        kani::assume((vocab + 1).div_ceil(32) == W);
        let n_elts = vocab.div_ceil(32);
        let mut m = SimpleVob::alloc_with_capacity(vocab, 32 * W);
        let mut i = 0;
        while i < 32 * W {
            if kani::any::<bool>() && i < vocab {
                m.allow_token(i as u32);
            }
            i += 1;
        }
        let src: [u32; W] = core::array::from_fn(|w| m.as_slice()[w]);
        let mut dest = [CANARY; KP1];
        let mask_byte_len: usize = kani::any();
        kani::assume(mask_byte_len <= 4 * (KP1 - 1));
        let null: bool = kani::any();
        let p = if null { core::ptr::null_mut() } else { dest.as_mut_ptr() };
        let fail: bool = kani::any();
        let r = body(m, vocab, p, mask_byte_len, fail);
        kani::cover!(r == 0);
        kani::cover!(r != 0 && !null && !fail);
        // accepted exactly for the one legal length (llg_matcher_get_mask_byte_size), a non-null buffer and a mask that could be computed
        assert!((r == 0) == (!null && !fail && mask_byte_len == 4 * n_elts));
        let w: usize = kani::any();
        kani::assume(w < KP1);
        if r == 0 && w < n_elts {
            assert!(dest[w] == src[w]);
            let b: u32 = kani::any();
            kani::assume(b < 32);
            if dest[w] & (1 << b) != 0 {
                assert!(32 * w + (b as usize) < vocab); // only bits of real token ids
            }
        } else {
            assert!(dest[w] == CANARY); // nothing else is written, nothing at all on error
        }
    }

    #[kani::proof]
    #[kani::unwind(34)]
    #[kani::stub(std::ptr::copy_nonoverlapping, stub_copy_nonoverlapping)]
    fn matcher_into_w1() {
        run::<1, 3>();
    }
    #[kani::proof]
    #[kani::unwind(66)]
    #[kani::stub(std::ptr::copy_nonoverlapping, stub_copy_nonoverlapping)]
    fn matcher_into_w2() {
        run::<2, 4>();
    }

    // vacuity guard (must FAIL): claims every buffer length is accepted
    #[kani::proof]
    #[kani::unwind(34)]
    #[kani::stub(std::ptr::copy_nonoverlapping, stub_copy_nonoverlapping)]
    fn mustfail_matcher_into_any_len() {
        let m = SimpleVob::alloc_with_capacity(20, 32);
        let mut dest = [CANARY; 3];
        let len: usize = kani::any();
        kani::assume(len <= 8);
        let r = body(m, 20, dest.as_mut_ptr(), len, false);
        assert!(r == 0);
    }
}
