//@@ append parser/src/ffi.rs
// Unit ffi_k (Kani path B): C functions that copy a freshly computed Vec / string into a caller buffer
// (llg_matcher_compute_ff_tokens, llg_tokenize_bytes, llg_stringify_tokens, llg_decode_tokens, save_error_string): whole real fn items
// in a shim environment.
#[cfg(kani)]
mod verif_kani_ffi_copy {
    use super::slice_from_ptr_or_empty;
    use super::{LLG_DECODE_INCLUDE_SPECIAL, LLG_DECODE_VALID_UTF8};
    use std::ffi::c_char;
    use std::fmt::Display;

    //@@ fnspan parser/src/ffi.rs ff_tokens_fn llg_matcher_compute_ff_tokens
    //@@ fnspan parser/src/ffi.rs tokenize_fn llg_tokenize_bytes
    //@@ fnspan parser/src/ffi.rs stringify_fn llg_stringify_tokens
    //@@ fnspan parser/src/ffi.rs decode_fn llg_decode_tokens
    //@@ fnspan parser/src/ffi.rs tokenize_marker_fn llg_tokenize_bytes_marker
    //@@ fnspan parser/src/ffi.rs save_err_fn save_error_string

    struct ShimError;
    type Result<T> = core::result::Result<T, ShimError>;
    unsafe fn stub_copy_nonoverlapping<T>(src: *const T, dst: *mut T, count: usize) {
        let mut i = 0;
        while i < count {
            *dst.add(i) = core::ptr::read(src.add(i));
            i += 1;
        }
    }
    const CANARY: u32 = 0xA5A5_5A5A;
    const N: usize = 3;

    fn any_vec_u32() -> (Vec<u32>, [u32; N], usize) {
        let a: [u32; N] = kani::any();
        let n: usize = kani::any();
        kani::assume(n <= N);
        let mut v = Vec::with_capacity(N);
        let mut i = 0;
        while i < N {
            if i < n {
                v.push(a[i]);
            }
            i += 1;
        }
        (v, a, n)
    }

    struct ShimMatcher {
        ff: Option<Vec<u32>>,
    }
    impl ShimMatcher {
        fn compute_ff_tokens(&mut self) -> Vec<u32> {
            self.ff.take().unwrap()
        }
    }
    struct LlgMatcher {
        matcher: ShimMatcher,
    }
    impl LlgMatcher {
        fn wrap(&mut self, f: impl FnOnce(&mut ShimMatcher) -> Result<i32>) -> i32 {
            match f(&mut self.matcher) {
                Ok(v) => v,
                Err(_) => -1,
            }
        }
    }
    struct ShimEnv {
        toks: Option<Vec<u32>>,
    }
    impl ShimEnv {
        fn tokenize_bytes(&self, _b: &[u8]) -> Vec<u32> {
            // (clone: the shim is behind & like the real tokenizer)
            self.toks.as_ref().unwrap().clone()
        }
        fn tokenize_bytes_marker(&self, _b: &[u8]) -> (Vec<u32>, usize) {
            (self.toks.as_ref().unwrap().clone(), 0)
        }
    }
    struct ShimTrie {
        s: [u8; N],
        n: usize,
    }
    impl ShimTrie {
        fn tokens_dbg(&self, _t: &[u32]) -> String {
            let mut v = Vec::with_capacity(N);
            let mut i = 0;
            while i < N {
                if i < self.n {
                    v.push(self.s[i] & 0x7f);
                }
                i += 1;
            }
            unsafe { String::from_utf8_unchecked(v) }
        }
    }
    impl ShimTrie {
        fn decode_ext(&self, _t: &[u32], _special: bool) -> Vec<u8> {
            let mut v = Vec::with_capacity(N);
            let mut i = 0;
            while i < N {
                if i < self.n {
                    v.push(self.s[i]);
                }
                i += 1;
            }
            v
        }
    }
    struct LlgTokenizer {
        env: ShimEnv,
        trie: ShimTrie,
    }
    impl LlgTokenizer {
        fn tok_env(&self) -> &ShimEnv {
            &self.env
        }
        fn tok_trie(&self) -> &ShimTrie {
            &self.trie
        }
    }
    /*@@paste ff_tokens_fn s/#[no_mangle]//*/
    /*@@paste tokenize_fn s/#[no_mangle]//*/
    /*@@paste stringify_fn s/#[no_mangle]//*/
    /*@@paste decode_fn s/#[no_mangle]//*/
    /*@@paste tokenize_marker_fn s/#[no_mangle]//*/
    /*@@paste save_err_fn*/

    /// decode: NUL-terminated, truncated to output_len - 1 bytes, returns the size needed, never writes past the buffer
    /// (flags without LLG_DECODE_VALID_UTF8: the lossy re-encoding is std code outside the harness' budget)
    #[kani::proof]
    #[kani::unwind(6)]
    #[kani::stub(std::ptr::copy_nonoverlapping, stub_copy_nonoverlapping)]
    fn ffi_decode_copy() {
        let s: [u8; N] = kani::any();
        let n: usize = kani::any();
        kani::assume(n <= N);
        let tok = LlgTokenizer { env: ShimEnv { toks: None }, trie: ShimTrie { s, n } };
        let toks = [1u32; 1];
        let mut out = [0x55 as c_char; N + 3];
        let out_len: usize = kani::any();
        kani::assume(out_len <= N + 2);
        let null: bool = kani::any();
        let p = if null { core::ptr::null_mut() } else { out.as_mut_ptr() };
        // concrete flags keep the LLG_DECODE_VALID_UTF8 branch (String::from_utf8_lossy) out of the formula
        let flags: u32 = LLG_DECODE_INCLUDE_SPECIAL & !LLG_DECODE_VALID_UTF8;
        let r = unsafe { llg_decode_tokens(&tok, toks.as_ptr(), 1, p, out_len, flags) };
        assert!(r == n + 1);
        let i: usize = kani::any();
        kani::assume(i < N + 3);
        if null || out_len == 0 {
            assert!(out[i] == 0x55);
        } else {
            let len = if n < out_len - 1 { n } else { out_len - 1 };
            if i < len {
                assert!(out[i] as u8 == s[i]);
            } else if i == len {
                assert!(out[i] == 0);
            } else {
                assert!(out[i] == 0x55);
            }
        }
    }

    /// error strings: NUL-terminated, truncated to error_string_len - 1 bytes, nothing written past the buffer or into a null one
    #[kani::proof]
    #[kani::unwind(6)]
    #[kani::stub(std::ptr::copy_nonoverlapping, stub_copy_nonoverlapping)]
    fn ffi_save_error_string() {
        let s: [u8; N] = kani::any();
        let n: usize = kani::any();
        kani::assume(n <= N);
        let mut v = Vec::with_capacity(N);
        let mut i = 0;
        while i < N {
            if i < n {
                v.push(s[i] & 0x7f);
            }
            i += 1;
        }
        let msg = unsafe { String::from_utf8_unchecked(v) };
        let mut out = [0x55 as c_char; N + 3];
        let out_len: usize = kani::any();
        kani::assume(out_len <= N + 2);
        let null: bool = kani::any();
        let p = if null { core::ptr::null_mut() } else { out.as_mut_ptr() };
        unsafe { save_error_string(msg, p, out_len) };
        let i: usize = kani::any();
        kani::assume(i < N + 3);
        if null || out_len == 0 {
            assert!(out[i] == 0x55);
        } else {
            let len = if n < out_len - 1 { n } else { out_len - 1 };
            if i < len {
                assert!(out[i] as u8 == s[i] & 0x7f);
            } else if i == len {
                assert!(out[i] == 0);
            } else {
                assert!(out[i] == 0x55);
            }
        }
    }

    /// fast-forward tokens: min(len, output_len) tokens copied, that count returned, nothing written past the buffer
    #[kani::proof]
    #[kani::unwind(6)]
    #[kani::stub(std::ptr::copy_nonoverlapping, stub_copy_nonoverlapping)]
    fn ffi_ff_tokens_copy() {
        let (v, a, n) = any_vec_u32();
        let mut m = LlgMatcher { matcher: ShimMatcher { ff: Some(v) } };
        let mut out = [CANARY; N + 2];
        let out_len: usize = kani::any();
        kani::assume(out_len <= N + 1);
        let null: bool = kani::any();
        let p = if null { core::ptr::null_mut() } else { out.as_mut_ptr() };
        let r = unsafe { llg_matcher_compute_ff_tokens(&mut m, p, out_len) };
        kani::cover!(r > 0 && (r as usize) < n);
        let want = if n < out_len { n } else { out_len };
        if null {
            assert!(r == -1);
        } else {
            assert!(r == want as i32);
        }
        let i: usize = kani::any();
        kani::assume(i < N + 2);
        if !null && i < want {
            assert!(out[i] == a[i]);
        } else {
            assert!(out[i] == CANARY);
        }
    }

    /// tokenize: returns the full token count, copies at most output_tokens_len of them, never writes past the buffer
    #[kani::proof]
    #[kani::unwind(6)]
    #[kani::stub(std::ptr::copy_nonoverlapping, stub_copy_nonoverlapping)]
    fn ffi_tokenize_copy() {
        let (v, a, n) = any_vec_u32();
        let tok = LlgTokenizer { env: ShimEnv { toks: Some(v) }, trie: ShimTrie { s: [0; N], n: 0 } };
        let bytes = [b'x'; 2];
        let mut out = [CANARY; N + 2];
        let out_len: usize = kani::any();
        kani::assume(out_len <= N + 1);
        let null: bool = kani::any();
        let p = if null { core::ptr::null_mut() } else { out.as_mut_ptr() };
        let r = unsafe { llg_tokenize_bytes(&tok, bytes.as_ptr(), 2, p, out_len) };
        assert!(r == n);
        let want = if null { 0 } else if n < out_len { n } else { out_len };
        let i: usize = kani::any();
        kani::assume(i < N + 2);
        if i < want {
            assert!(out[i] == a[i]);
        } else {
            assert!(out[i] == CANARY);
        }
    }

    /// tokenize (marker variant): same contract
    #[kani::proof]
    #[kani::unwind(6)]
    #[kani::stub(std::ptr::copy_nonoverlapping, stub_copy_nonoverlapping)]
    fn ffi_tokenize_marker_copy() {
        let (v, a, n) = any_vec_u32();
        let tok = LlgTokenizer { env: ShimEnv { toks: Some(v) }, trie: ShimTrie { s: [0; N], n: 0 } };
        let bytes = [b'x'; 2];
        let mut out = [CANARY; N + 2];
        let out_len: usize = kani::any();
        kani::assume(out_len <= N + 1);
        let null: bool = kani::any();
        let p = if null { core::ptr::null_mut() } else { out.as_mut_ptr() };
        let r = unsafe { llg_tokenize_bytes_marker(&tok, bytes.as_ptr(), 2, p, out_len) };
        assert!(r == n);
        let want = if null { 0 } else if n < out_len { n } else { out_len };
        let i: usize = kani::any();
        kani::assume(i < N + 2);
        if i < want {
            assert!(out[i] == a[i]);
        } else {
            assert!(out[i] == CANARY);
        }
    }

    /// stringify: NUL-terminated, truncated to output_len - 1 bytes, returns the size needed, never writes past the buffer
    #[kani::proof]
    #[kani::unwind(6)]
    #[kani::stub(std::ptr::copy_nonoverlapping, stub_copy_nonoverlapping)]
    fn ffi_stringify_copy() {
        let s: [u8; N] = kani::any();
        let n: usize = kani::any();
        kani::assume(n <= N);
        let tok = LlgTokenizer { env: ShimEnv { toks: None }, trie: ShimTrie { s, n } };
        let toks = [1u32; 1];
        let mut out = [0x55 as c_char; N + 3];
        let out_len: usize = kani::any();
        kani::assume(out_len <= N + 2);
        let null: bool = kani::any();
        let p = if null { core::ptr::null_mut() } else { out.as_mut_ptr() };
        let r = unsafe { llg_stringify_tokens(&tok, toks.as_ptr(), 1, p, out_len) };
        assert!(r == n + 1);
        let i: usize = kani::any();
        kani::assume(i < N + 3);
        if null || out_len == 0 {
            assert!(out[i] == 0x55);
        } else {
            let len = if n < out_len - 1 { n } else { out_len - 1 };
            if i < len {
                assert!(out[i] as u8 == s[i] & 0x7f);
            } else if i == len {
                assert!(out[i] == 0);
            } else {
                assert!(out[i] == 0x55);
            }
        }
    }

    // vacuity guard (must FAIL): claims the whole vector is always copied
    #[kani::proof]
    #[kani::unwind(6)]
    #[kani::stub(std::ptr::copy_nonoverlapping, stub_copy_nonoverlapping)]
    fn mustfail_ffi_ff_tokens_all() {
        let (v, _a, n) = any_vec_u32();
        let mut m = LlgMatcher { matcher: ShimMatcher { ff: Some(v) } };
        let mut out = [CANARY; N + 2];
        let r = unsafe { llg_matcher_compute_ff_tokens(&mut m, out.as_mut_ptr(), 1) };
        assert!(r == n as i32);
    }
}
