//@@ append parser/src/earley/parser.rs
// Unit special_k (Kani path B): the statement span of ParserState::compute_bias that post-processes the walked mask:
// removes the bare special-marker token, adds the token ranges named by the grammar at this position, adds EOS.
#[cfg(kani)]
mod verif_kani_mask_span {
    use std::ops::RangeInclusive;
    use toktrie::{SimpleVob, INVALID_TOKEN};

    //@@ span parser/src/earley/parser.rs mask_post :: if self.special_token_marker_token != INVALID_TOKEN { set.disallow_token(self.special_token_marker_token); } ::: set.allow_token(eos); }

    const VOCAB: usize = 40;

    struct LexemeSpec {
        token_ranges: Vec<RangeInclusive<u32>>,
    }
    struct ShimTrie {
        eos: u32,
    }
    impl ShimTrie {
        fn eos_token(&self) -> u32 {
            self.eos
        }
    }
    struct ShimComputer {
        trie: ShimTrie,
    }
    impl ShimComputer {
        fn trie(&self) -> &ShimTrie {
            &self.trie
        }
    }
    struct ShimState {
        special_token_marker_token: u32,
        flush_ok: bool,
        allows_eos: bool,
        specs: Vec<LexemeSpec>,
        speculative_runs: usize,
    }
    impl ShimState {
        fn run_speculative<T>(&mut self, _lbl: &str, f: impl FnOnce(&mut Self) -> T) -> T {
            self.speculative_runs += 1;
            f(self)
        }
        fn flush_lexer(&mut self) -> bool {
            self.flush_ok
        }
        fn token_range_lexemes(&self) -> Vec<&LexemeSpec> {
            self.specs.iter().collect()
        }
        fn lexer_allows_eos(&mut self) -> bool {
            self.allows_eos
        }
        fn post(&mut self, computer: &ShimComputer, mut set: SimpleVob, start: &[u8]) -> SimpleVob {
            /*@@paste mask_post*/
            set
        }
    }

    fn any_range() -> RangeInclusive<u32> {
        let a: u32 = kani::any();
        let b: u32 = kani::any();
        kani::assume(a <= b && (b as usize) < VOCAB);
        a..=b
    }

    /// exactly: mask' = (mask \ {marker}) u (start empty and lexer flushed ? named ranges : {}) u (start empty and EOS allowed ? {eos} : {})
    #[kani::proof]
    #[kani::unwind(42)]
    fn mask_post_exact() {
        let mut set = SimpleVob::alloc_with_capacity(VOCAB, VOCAB + 1);
        let w0: u32 = kani::any();
        let mut i = 0;
        while i < 32 {
            if w0 & (1 << i) != 0 {
                set.allow_token(i as u32);
            }
            i += 1;
        }
        let r1 = any_range();
        let r2 = any_range();
        let marker: u32 = kani::any();
        kani::assume((marker as usize) < VOCAB || marker == INVALID_TOKEN);
        let eos: u32 = kani::any();
        kani::assume((eos as usize) < VOCAB || eos == INVALID_TOKEN);
        let mut st = ShimState {
            special_token_marker_token: marker,
            flush_ok: kani::any(),
            allows_eos: kani::any(),
            specs: vec![LexemeSpec { token_ranges: vec![r1.clone()] }, LexemeSpec { token_ranges: vec![r2.clone()] }],
            speculative_runs: 0,
        };
        let comp = ShimComputer { trie: ShimTrie { eos } };
        let start_empty: bool = kani::any();
        let start_bytes = [b'x'];
        let start: &[u8] = if start_empty { &[] } else { &start_bytes };
        let flush_ok = st.flush_ok;
        let allows_eos = st.allows_eos;
        let old = set.clone();
        let out = st.post(&comp, set, start);
        kani::cover!(start_empty && flush_ok && allows_eos);
        kani::cover!(!start_empty);
        let t: u32 = kani::any();
        kani::assume((t as usize) < VOCAB);
        let in_ranges = start_empty && flush_ok && (r1.contains(&t) || r2.contains(&t));
        let is_eos = start_empty && allows_eos && eos != INVALID_TOKEN && t == eos;
        let want = (old.is_allowed(t) && t != marker) || in_ranges || is_eos;
        assert!(out.is_allowed(t) == want);
        // with a pending token prefix nothing but the walked mask (minus the marker) is allowed: no token range, no EOS
        if !start_empty {
            assert!(out.is_allowed(t) == (old.is_allowed(t) && t != marker));
        }
        assert!(!out.is_allowed(VOCAB as u32));
    }

    // vacuity guard (must FAIL)
    #[kani::proof]
    #[kani::unwind(42)]
    fn mustfail_mask_post_never_adds() {
        let set = SimpleVob::alloc_with_capacity(VOCAB, VOCAB + 1);
        let mut st = ShimState {
            special_token_marker_token: INVALID_TOKEN,
            flush_ok: true,
            allows_eos: false,
            specs: vec![LexemeSpec { token_ranges: vec![any_range()] }],
            speculative_runs: 0,
        };
        let comp = ShimComputer { trie: ShimTrie { eos: INVALID_TOKEN } };
        let out = st.post(&comp, set, &[]);
        let t: u32 = kani::any();
        kani::assume((t as usize) < VOCAB);
        assert!(!out.is_allowed(t));
    }
}
