//@@ append parser/src/earley/parser.rs
// Unit special_k (Kani path B): the statement span of ParserState::compute_bias that post-processes the walked mask:
// removes the bare special-marker token, adds the token ranges named by the grammar at this position, adds EOS.
#[cfg(kani)]
mod verif_kani_mask_span {
    use std::ops::RangeInclusive;
    use toktrie::{SimpleVob, INVALID_TOKEN};

    //@@ span parser/src/earley/parser.rs mask_post :: if self.special_token_marker_token != INVALID_TOKEN { set.disallow_token(self.special_token_marker_token); } ::: set.allow_token(eos); }

    //@@ span parser/src/earley/parser.rs cache_lookup :: @after fn compute_bias(&mut self, computer: &dyn BiasComputer, start: &[u8]) -> SimpleVob { let t0 = Instant::now(); ::: @before let limits = self.limits.clone();
    //@@ span parser/src/earley/parser.rs cache_fill :: @after if eos != INVALID_TOKEN && start.is_empty() && self.lexer_allows_eos() { set.allow_token(eos); } ::: @before let d = t0.elapsed(); self.stats.compute_time_us += d.as_micros() as u64; self.perf_counters.compute_bias.record(d); set }

    const VOCAB: usize = 40;

    struct LexemeSpec {
        token_ranges: Vec<RangeInclusive<u32>>,
    }
    struct ShimTrie {
        eos: u32,
    }
    impl ShimTrie {
        fn eos_token(&self) -> u32 {
            self.eos
        }
    }
    struct ShimComputer {
        trie: ShimTrie,
    }
    impl ShimComputer {
        fn trie(&self) -> &ShimTrie {
            &self.trie
        }
    }
    struct ShimState {
        special_token_marker_token: u32,
        flush_ok: bool,
        allows_eos: bool,
        specs: Vec<LexemeSpec>,
        speculative_runs: usize,
    }
    impl ShimState {
        fn run_speculative<T>(&mut self, _lbl: &str, f: impl FnOnce(&mut Self) -> T) -> T {
            self.speculative_runs += 1;
            f(self)
        }
        fn flush_lexer(&mut self) -> bool {
            self.flush_ok
        }
        fn token_range_lexemes(&self) -> Vec<&LexemeSpec> {
            self.specs.iter().collect()
        }
        fn lexer_allows_eos(&mut self) -> bool {
            self.allows_eos
        }
        fn post(&mut self, computer: &ShimComputer, mut set: SimpleVob, start: &[u8]) -> SimpleVob {
            /*@@paste mask_post*/
            set
        }
    }

    fn any_range() -> RangeInclusive<u32> {
        let a: u32 = kani::any();
        let b: u32 = kani::any();
        kani::assume(a <= b && (b as usize) < VOCAB);
        a..=b
    }

    /// exactly: mask' = (mask \ {marker}) u (start empty and lexer flushed ? named ranges : {}) u (start empty and EOS allowed ? {eos} : {})
    #[kani::proof]
    #[kani::unwind(42)]
    fn mask_post_exact() {
        let mut set = SimpleVob::alloc_with_capacity(VOCAB, VOCAB + 1);
        let w0: u32 = kani::any();
        let mut i = 0;
        while i < 32 {
            if w0 & (1 << i) != 0 {
                set.allow_token(i as u32);
            }
            i += 1;
        }
        let r1 = any_range();
        let r2 = any_range();
        let marker: u32 = kani::any();
        kani::assume((marker as usize) < VOCAB || marker == INVALID_TOKEN);
        let eos: u32 = kani::any();
        kani::assume((eos as usize) < VOCAB || eos == INVALID_TOKEN);
        let mut st = ShimState {
            special_token_marker_token: marker,
            flush_ok: kani::any(),
            allows_eos: kani::any(),
            specs: vec![LexemeSpec { token_ranges: vec![r1.clone()] }, LexemeSpec { token_ranges: vec![r2.clone()] }],
            speculative_runs: 0,
        };
        let comp = ShimComputer { trie: ShimTrie { eos } };
        let start_empty: bool = kani::any();
        let start_bytes = [b'x'];
        let start: &[u8] = if start_empty { &[] } else { &start_bytes };
        let flush_ok = st.flush_ok;
        let allows_eos = st.allows_eos;
        let old = set.clone();
        let out = st.post(&comp, set, start);
        kani::cover!(start_empty && flush_ok && allows_eos);
        kani::cover!(!start_empty);
        let t: u32 = kani::any();
        kani::assume((t as usize) < VOCAB);
        let in_ranges = start_empty && flush_ok && (r1.contains(&t) || r2.contains(&t));
        let is_eos = start_empty && allows_eos && eos != INVALID_TOKEN && t == eos;
        let want = (old.is_allowed(t) && t != marker) || in_ranges || is_eos;
        assert!(out.is_allowed(t) == want);
        // with a pending token prefix nothing but the walked mask (minus the marker) is allowed: no token range, no EOS
        if !start_empty {
            assert!(out.is_allowed(t) == (old.is_allowed(t) && t != marker));
        }
        assert!(!out.is_allowed(VOCAB as u32));
    }

    // ---- the mask cache of compute_bias: lookup and fill statements (real text) ----
    #[derive(Clone, Copy, PartialEq)]
    struct LexSt {
        lexer_state: u32,
        row_idx: u32,
    }
    struct BiasCache {
        lexer_state: u32,
        row_idx: u32,
        has_pending_lexeme_bytes: bool,
        mask: SimpleVob,
    }
    struct ShimStats {
        compute_time_us: u64,
    }
    struct ShimCounter;
    impl ShimCounter {
        fn record(&self, _d: ShimDur) {}
    }
    struct ShimPerf {
        compute_bias: ShimCounter,
    }
    #[derive(Clone, Copy)]
    struct ShimDur;
    impl ShimDur {
        fn as_micros(&self) -> u128 {
            0
        }
    }
    struct Instant;
    impl Instant {
        fn now() -> Instant {
            Instant
        }
        fn elapsed(&self) -> ShimDur {
            ShimDur
        }
    }
    struct CacheState {
        cur: LexSt,
        pending: bool,
        bias_cache: Option<BiasCache>,
        stats: ShimStats,
        perf_counters: ShimPerf,
    }
    impl CacheState {
        fn lexer_state(&self) -> LexSt {
            self.cur
        }
        fn has_pending_lexeme_bytes(&self) -> bool {
            self.pending
        }
        /// Some(mask) = the cached mask was returned without recomputation
        fn lookup(&mut self, start: &[u8]) -> Option<SimpleVob> {
            let t0 = Instant::now();
            /*@@paste cache_lookup s/return cache.mask.clone();/return Some(cache.mask.clone());/*/
            None
        }
        fn fill(&mut self, start: &[u8], set: &SimpleVob) {
            let t0 = Instant::now();
            let _ = &t0;
            /*@@paste cache_fill*/
        }
    }
    fn any_cache_state(with_cache: bool) -> CacheState {
        let mut m = SimpleVob::alloc_with_capacity(8, 9);
        if kani::any() {
            m.allow_token(3);
        }
        CacheState {
            cur: LexSt { lexer_state: kani::any(), row_idx: kani::any() },
            pending: kani::any(),
            bias_cache: if with_cache {
                Some(BiasCache { lexer_state: kani::any(), row_idx: kani::any(), has_pending_lexeme_bytes: kani::any(), mask: m })
            } else {
                None
            },
            stats: ShimStats { compute_time_us: 0 },
            perf_counters: ShimPerf { compute_bias: ShimCounter },
        }
    }

    /// a cached mask is served only for an empty token prefix and only when all three key components match the current state
    #[kani::proof]
    #[kani::unwind(4)]
    fn bias_cache_lookup_key() {
        let with_cache: bool = kani::any();
        let mut st = any_cache_state(with_cache);
        let start_empty: bool = kani::any();
        let sb = [b'x'];
        let start: &[u8] = if start_empty { &[] } else { &sb };
        let key_eq = match &st.bias_cache {
            Some(c) => c.lexer_state == st.cur.lexer_state && c.row_idx == st.cur.row_idx && c.has_pending_lexeme_bytes == st.pending,
            None => false,
        };
        let hit = st.lookup(start);
        kani::cover!(hit.is_some());
        kani::cover!(hit.is_none() && with_cache && start_empty);
        assert!(hit.is_some() == (start_empty && key_eq));
        if let (Some(h), Some(c)) = (&hit, &st.bias_cache) {
            assert!(h.is_allowed(3) == c.mask.is_allowed(3)); // and it is the cached mask itself
        }
    }

    /// the cache is (re)filled only for an empty token prefix, with the current key and the mask just computed
    #[kani::proof]
    #[kani::unwind(4)]
    fn bias_cache_fill_key() {
        let with_cache: bool = kani::any();
        let mut st = any_cache_state(with_cache);
        let start_empty: bool = kani::any();
        let sb = [b'x'];
        let start: &[u8] = if start_empty { &[] } else { &sb };
        let mut set = SimpleVob::alloc_with_capacity(8, 9);
        let bit: bool = kani::any();
        if bit {
            set.allow_token(5);
        }
        let old_key = st.bias_cache.as_ref().map(|c| (c.lexer_state, c.row_idx, c.has_pending_lexeme_bytes));
        st.fill(start, &set);
        let new_key = st.bias_cache.as_ref().map(|c| (c.lexer_state, c.row_idx, c.has_pending_lexeme_bytes));
        if start_empty {
            assert!(new_key == Some((st.cur.lexer_state, st.cur.row_idx, st.pending)));
            assert!(st.bias_cache.as_ref().unwrap().mask.is_allowed(5) == bit);
        } else {
            assert!(new_key == old_key); // a mask computed under a token prefix never enters the cache
        }
    }

    // vacuity guard (must FAIL)
    #[kani::proof]
    #[kani::unwind(42)]
    fn mustfail_mask_post_never_adds() {
        let set = SimpleVob::alloc_with_capacity(VOCAB, VOCAB + 1);
        let mut st = ShimState {
            special_token_marker_token: INVALID_TOKEN,
            flush_ok: true,
            allows_eos: false,
            specs: vec![LexemeSpec { token_ranges: vec![any_range()] }],
            speculative_runs: 0,
        };
        let comp = ShimComputer { trie: ShimTrie { eos: INVALID_TOKEN } };
        let out = st.post(&comp, set, &[]);
        let t: u32 = kani::any();
        kani::assume((t as usize) < VOCAB);
        assert!(!out.is_allowed(t));
    }
}
