//@@ append parser/src/earley/parser.rs
// Unit special_k (Kani path B): the statement span of ParserState::force_bytes that decides whether the special-token position
// reached by the forced 0xFF marker determines ONE token id (which is then forced as \xFF[id]): that is the case exactly when every
// token range of every possible token-range lexeme is the same single id.
#[cfg(kani)]
mod verif_kani_force_special {
    use std::ops::RangeInclusive;

    //@@ span parser/src/earley/parser.rs unique_span :: let mut unique_token_id = None; ::: @before if let Some(token_id) = unique_token_id {

    /// (no heap: CBMC runs out of memory on Vec<LexemeSpec { Vec<..> }>; the span only iterates)
    struct LexemeSpec<const NR: usize> {
        token_ranges: [RangeInclusive<u32>; NR],
    }

    fn unique<const NR: usize>(specs: &[&LexemeSpec<NR>]) -> Option<u32> {
        /*@@paste unique_span*/
        unique_token_id
    }

    fn run<const NS: usize, const NR: usize>() {
        let lo: [[u32; NR]; NS] = kani::any();
        let hi: [[u32; NR]; NS] = kani::any();
        let store: [LexemeSpec<NR>; NS] = core::array::from_fn(|i| LexemeSpec { token_ranges: core::array::from_fn(|j| lo[i][j]..=hi[i][j]) });
        let refs: [&LexemeSpec<NR>; NS] = core::array::from_fn(|i| &store[i]);
        let got = unique(&refs[..]);
        // reference: Some(t) iff every range is [t, t] for one and the same t
        let t0 = lo[0][0];
        let mut all_same_single = true;
        let mut i = 0;
        while i < NS {
            let mut j = 0;
            while j < NR {
                all_same_single = all_same_single && lo[i][j] == hi[i][j] && lo[i][j] == t0;
                j += 1;
            }
            i += 1;
        }
        if all_same_single {
            assert!(got == Some(t0));
        } else {
            assert!(got.is_none());
        }
        kani::cover!(got.is_some());
        kani::cover!(got.is_none());
    }

    /// no token-range lexeme possible: nothing is determined
    #[kani::proof]
    #[kani::unwind(5)]
    fn force_special_unique_id_none() {
        let refs: [&LexemeSpec<1>; 0] = [];
        assert!(unique(&refs[..]).is_none());
    }
    /// three lexemes with one range each (`<a> | <b> | <c>`)
    #[kani::proof]
    #[kani::unwind(5)]
    fn force_special_unique_id_3x1() {
        run::<3, 1>();
    }
    /// one lexeme with three ranges (`<[a,b,c]>`)
    #[kani::proof]
    #[kani::unwind(5)]
    fn force_special_unique_id_1x3() {
        run::<1, 3>();
    }
    #[kani::proof]
    #[kani::unwind(5)]
    fn force_special_unique_id_2x2() {
        run::<2, 2>();
    }

    // vacuity guard (must FAIL): claims a position with token ranges always determines a token
    #[kani::proof]
    #[kani::unwind(5)]
    fn mustfail_force_special_always_some() {
        let a: u32 = kani::any();
        let b: u32 = kani::any();
        let s = LexemeSpec::<2> { token_ranges: [a..=a, b..=b] };
        let specs = [&s];
        assert!(unique(&specs[..]).is_some());
    }
}
