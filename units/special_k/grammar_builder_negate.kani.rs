//@@ append parser/src/grammar_builder.rs
// Unit special_k: the complement computation of GrammarBuilder::negated_token_ranges (real statement span).
#[cfg(kani)]
mod verif_kani_negate {
    use std::ops::RangeInclusive;

    //@@ span parser/src/grammar_builder.rs negate_span :: let (min, max) = (0u32, trie.vocab_size() as u32 - 1); ::: @block_end

    struct ShimError;
    type Result<T> = core::result::Result<T, ShimError>;
    macro_rules! ensure {
        ($c:expr, $($t:tt)*) => {
            if !($c) {
                return Err(ShimError);
            }
        };
    }
    struct ShimTrie {
        vocab: usize,
    }
    impl ShimTrie {
        fn vocab_size(&self) -> usize {
            self.vocab
        }
    }
    fn negate(trie: &ShimTrie, token_ranges: Vec<RangeInclusive<u32>>) -> Result<Vec<RangeInclusive<u32>>> {
        let r = {
            /*@@paste negate_span*/
        };
        Ok(r)
    }

    fn run<const NR: usize>() {
        let vocab: usize = kani::any();
        kani::assume(vocab >= 1 && vocab <= u32::MAX as usize);
        let mut input: Vec<RangeInclusive<u32>> = Vec::with_capacity(NR);
        let mut bounds = [(0u32, 0u32); NR];
        let mut i = 0;
        while i < NR {
            let a: u32 = kani::any();
            let b: u32 = kani::any();
            bounds[i] = (a, b);
            input.push(a..=b);
            i += 1;
        }
        let trie = ShimTrie { vocab };
        let legal = {
            let mut ok = NR > 0;
            let mut i = 0;
            while i < NR {
                ok = ok && bounds[i].0 <= bounds[i].1 && (bounds[i].1 as usize) < vocab;
                i += 1;
            }
            ok
        };
        let r = negate(&trie, input);
        kani::cover!(r.is_ok());
        // every legal range list is accepted, every illegal one (empty list, end >= vocab, start > end) is rejected
        assert!(r.is_ok() == legal);
        if let Ok(neg) = r {
            let t: u32 = kani::any();
            kani::assume((t as usize) < vocab);
            let mut in_input = false;
            let mut i = 0;
            while i < NR {
                in_input = in_input || (bounds[i].0 <= t && t <= bounds[i].1);
                i += 1;
            }
            let mut in_neg = false;
            let mut j = 0;
            while j < neg.len() {
                assert!(neg[j].start() <= neg[j].end() && (*neg[j].end() as usize) < vocab); // stays inside [0, vocab)
                in_neg = in_neg || neg[j].contains(&t);
                j += 1;
            }
            // exact complement inside the vocabulary
            assert!(in_neg == !in_input);
        }
    }

    #[kani::proof]
    #[kani::unwind(5)]
    fn negate_1_range() {
        run::<1>();
    }
    #[kani::proof]
    #[kani::unwind(6)]
    fn negate_2_ranges() {
        run::<2>();
    }
    #[kani::proof]
    #[kani::unwind(8)]
    fn negate_3_ranges() {
        run::<3>();
    }
    /// small-domain variant: two ranges, vocabulary <= 40 (keeps the SAT problem small; overlapping / nested / adjacent
    /// / unsorted pairs are all inside the domain)
    #[kani::proof]
    #[kani::unwind(6)]
    fn negate_2_ranges_small() {
        let vocab: usize = kani::any();
        kani::assume(vocab >= 1 && vocab <= 40);
        let a: u32 = kani::any();
        let b: u32 = kani::any();
        let c: u32 = kani::any();
        let d: u32 = kani::any();
        kani::assume(a <= 41 && b <= 41 && c <= 41 && d <= 41);
        let trie = ShimTrie { vocab };
        let legal = a <= b && c <= d && (b as usize) < vocab && (d as usize) < vocab;
        let r = negate(&trie, vec![a..=b, c..=d]);
        kani::cover!(r.is_ok() && c > a && c <= b && d > b);
        assert!(r.is_ok() == legal);
        if let Ok(neg) = r {
            let t: u32 = kani::any();
            kani::assume((t as usize) < vocab);
            let in_input = (a <= t && t <= b) || (c <= t && t <= d);
            let mut in_neg = false;
            let mut j = 0;
            while j < neg.len() {
                assert!(neg[j].start() <= neg[j].end() && (*neg[j].end() as usize) < vocab);
                in_neg = in_neg || neg[j].contains(&t);
                j += 1;
            }
            assert!(in_neg == !in_input);
        }
    }

    // vacuity guard (must FAIL): claims the complement is always a single range
    #[kani::proof]
    #[kani::unwind(6)]
    fn mustfail_negate_single_range() {
        let trie = ShimTrie { vocab: 100 };
        let a: u32 = kani::any();
        let b: u32 = kani::any();
        kani::assume(a <= b && b < 100);
        if let Ok(neg) = negate(&trie, vec![a..=b]) {
            assert!(neg.len() <= 1);
        }
    }
}
