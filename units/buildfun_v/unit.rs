// Unit buildfun_v: the child-list discipline of TrieBuilder::insert (toktrie/src/toktree.rs) - what makes first-match
// navigation (child_at_byte, greedy_tokenize, add_bias with a start prefix, token_id) see every token that extends a byte string:
// under one parent, a second child with the same byte is only ever a token-carrying LEAF appended after a token-carrying first
// child (a duplicate vocabulary entry); every other node is the first child with its byte.  Also: sibling lists are the children in
// insertion order, first_child/last_child are their ends, root_children caches the first root child per byte.
use vstd::prelude::*;
verus! {

global size_of usize == 8;

//@@ const toktrie/src/toktree.rs NO_TOKEN
//@@ const toktrie/src/toktree.rs NO_NODE
//@@ struct toktrie/src/toktree.rs BuilderNode
//@@ struct toktrie/src/toktree.rs TrieBuilder

pub type Arena = Seq<BuilderNode>;

/// ghost parent map: par[0] == -1, every other node has an earlier node as parent (nodes are only ever appended)
pub open spec fn par_at(par: Seq<int>, x: int) -> bool { 0 <= par[x] < x }
pub open spec fn par_ok(a: Arena, par: Seq<int>) -> bool {
    &&& par.len() == a.len() && a.len() >= 1 && a.len() < 0xffff_ffff && par[0] == -1
    &&& forall|x: int| 1 <= x < a.len() ==> #[trigger] par_at(par, x)
}
pub open spec fn is_child(par: Seq<int>, p: int, x: int) -> bool { 0 < x < par.len() && par[x] == p }

/// first_child / last_child are the smallest / largest child (children are appended in index order)
pub open spec fn fc_ok(a: Arena, par: Seq<int>, p: int) -> bool {
    let f = a[p].first_child;
    if f == NO_NODE { forall|x: int| !(#[trigger] is_child(par, p, x)) }
    else { f < a.len() && is_child(par, p, f as int) && forall|x: int| #[trigger] is_child(par, p, x) ==> x >= f }
}
pub open spec fn lc_ok(a: Arena, par: Seq<int>, p: int) -> bool {
    let l = a[p].last_child;
    if l == NO_NODE { a[p].first_child == NO_NODE }
    else { l < a.len() && is_child(par, p, l as int) && forall|x: int| #[trigger] is_child(par, p, x) ==> x <= l }
}
/// next_sibling is the next larger child of the same parent
pub open spec fn ns_ok(a: Arena, par: Seq<int>, x: int) -> bool {
    let n = a[x].next_sibling;
    if n == NO_NODE { forall|y: int| #[trigger] is_child(par, par[x], y) ==> y <= x }
    else { x < n < a.len() && is_child(par, par[x], n as int) && forall|y: int| #[trigger] is_child(par, par[x], y) && y > x ==> y >= n }
}
/// two children of one parent with the same byte
pub open spec fn same_slot(a: Arena, par: Seq<int>, x: int, y: int) -> bool {
    0 < x < y < a.len() && par[x] == par[y] && a[x].byte == a[y].byte
}
/// ... only as duplicate vocabulary entries: the earlier one carries a token, the later one is a token-carrying leaf
/// (`e` = the node the running insert stands on; it receives its token when the insert finishes)
pub open spec fn dup_ok(a: Arena, par: Seq<int>, x: int, y: int, e: int) -> bool {
    same_slot(a, par, x, y) ==> a[x].token_id != NO_TOKEN && a[y].first_child == NO_NODE && (a[y].token_id != NO_TOKEN || y == e)
}
/// root_children[b] caches the first root child with byte b
pub open spec fn rc_first(a: Arena, par: Seq<int>, rc: Seq<u32>, b: int) -> bool {
    let r = rc[b];
    if r == NO_NODE { forall|x: int| #[trigger] is_child(par, 0, x) ==> a[x].byte != b }
    else { r < a.len() && is_child(par, 0, r as int) && a[r as int].byte == b
           && forall|x: int| #[trigger] is_child(par, 0, x) && a[x].byte == b ==> x >= r }
}
pub open spec fn links_ok(a: Arena, par: Seq<int>, p: int) -> bool { fc_ok(a, par, p) && lc_ok(a, par, p) }

pub open spec fn sinv(a: Arena, par: Seq<int>, rc: Seq<u32>, e: int) -> bool {
    &&& par_ok(a, par)
    &&& rc.len() == 256
    &&& forall|p: int| 0 <= p < a.len() ==> #[trigger] links_ok(a, par, p)
    &&& forall|x: int| 1 <= x < a.len() ==> #[trigger] ns_ok(a, par, x)
    &&& forall|x: int, y: int| #[trigger] dup_ok(a, par, x, y, e)
    &&& forall|b: int| 0 <= b < 256 ==> #[trigger] rc_first(a, par, rc, b)
}
/// what TrieBuilder's public contract carries between calls
pub open spec fn sinv0(a: Arena, par: Seq<int>, rc: Seq<u32>) -> bool { sinv(a, par, rc, -1) }
pub open spec fn bwf(t: &TrieBuilder) -> bool { exists|par: Seq<int>| #[trigger] sinv0(t.nodes@, par, t.root_children@) }

/// the child the code descends into: same byte, and not a token-carrying node when this is the word's last byte
pub open spec fn matches(nd: BuilderNode, b: u8, is_last: bool) -> bool { nd.byte == b && !(is_last && nd.token_id != NO_TOKEN) }
pub open spec fn nomatch(a: Arena, par: Seq<int>, p: int, y: int, b: u8, is_last: bool) -> bool {
    is_child(par, p, y) ==> !matches(a[y], b, is_last)
}
/// x is the first child of its parent with its byte (or the root)
pub open spec fn first_b(a: Arena, par: Seq<int>, c: int) -> bool {
    forall|x: int| !(#[trigger] same_slot(a, par, x, c))
}

/// CONSEQUENCE (what the lookups rely on): every node is either the first child of its parent with its byte - and so reached by
/// first-match navigation - or a childless duplicate entry behind a token-carrying first match
pub proof fn lemma_first_match_complete(a: Arena, par: Seq<int>, rc: Seq<u32>, y: int)
    requires sinv(a, par, rc, -1), 0 < y < a.len(),
    ensures first_b(a, par, y) || (a[y].first_child == NO_NODE && a[y].token_id != NO_TOKEN
        && exists|x: int| same_slot(a, par, x, y) && a[x].token_id != NO_TOKEN),
{
    if !first_b(a, par, y) {
        let x = choose|x: int| same_slot(a, par, x, y);
        assert(dup_ok(a, par, x, y, -1));
    }
}


// ---------------------------------------------------------------- labelling: every token sits at the node its bytes spell
/// bytes on the way from the root to node x
pub open spec fn bpath(a: Arena, par: Seq<int>, x: int) -> Seq<u8>
    decreases x
{
    if x <= 0 || x >= a.len() || !(0 <= par[x] < x) { Seq::empty() } else { bpath(a, par, par[x]).push(a[x].byte) }
}
/// the vocabulary inserted so far: token id -> bytes (ghost; the code has no such object)
pub type Words = Map<u32, Seq<u8>>;
pub open spec fn tok_at(a: Arena, x: int) -> u32 { a[x].token_id }
/// a node's token is a vocabulary entry spelled by the node's path
pub open spec fn tok_sound(a: Arena, par: Seq<int>, w: Words, x: int) -> bool {
    a[x].token_id != NO_TOKEN ==> w.dom().contains(a[x].token_id) && w[a[x].token_id] == bpath(a, par, x)
}
/// every vocabulary entry has its node
pub open spec fn has_node(a: Arena, id: u32) -> bool { exists|x: int| 0 <= x < a.len() && #[trigger] tok_at(a, x) == id }
pub open spec fn linv(a: Arena, par: Seq<int>, w: Words) -> bool {
    &&& !w.dom().contains(NO_TOKEN)
    &&& forall|x: int| 0 <= x < a.len() ==> #[trigger] tok_sound(a, par, w, x)
    &&& forall|id: u32| w.dom().contains(id) ==> #[trigger] has_node(a, id)
}
pub open spec fn finv0(a: Arena, par: Seq<int>, rc: Seq<u32>, w: Words) -> bool { sinv0(a, par, rc) && linv(a, par, w) }
/// the builder holds exactly the vocabulary w: each id at the node its bytes spell (duplicates at sibling leaves), nothing else labelled
pub open spec fn bwf_a(a: Arena, rc: Seq<u32>, w: Words) -> bool { exists|par: Seq<int>| #[trigger] finv0(a, par, rc, w) }
pub open spec fn bwf_w(t: &TrieBuilder, w: Words) -> bool { bwf_a(t.nodes@, t.root_children@, w) }

/// largest child of p below x (or -1)
pub open spec fn prev_child(par: Seq<int>, p: int, x: int) -> int
    decreases x
{
    if x <= 1 { -1 } else if par[x - 1] == p { x - 1 } else { prev_child(par, p, x - 1) }
}
pub proof fn lemma_prev_child(par: Seq<int>, p: int, x: int)
    requires 0 <= x <= par.len(),
    ensures ({ let y = prev_child(par, p, x);
        (y == -1 || (0 < y < x && is_child(par, p, y)))
        && forall|z: int| y < z < x && z > 0 ==> !(#[trigger] is_child(par, p, z)) }),
    decreases x
{
    if x > 1 { if par[x - 1] != p { lemma_prev_child(par, p, x - 1); } }
}
/// the ghost parent map is determined by the arena: the links say who is whose child
pub proof fn lemma_par_unique_upto(a: Arena, p1: Seq<int>, p2: Seq<int>, rc: Seq<u32>, k: int)
    requires sinv0(a, p1, rc), sinv0(a, p2, rc), 0 <= k <= a.len(),
    ensures forall|x: int| 0 <= x < k ==> p1[x] == p2[x],
    decreases k
{
    if k > 0 {
        lemma_par_unique_upto(a, p1, p2, rc, k - 1);
        let x = k - 1;
        if x >= 1 {
            assert(par_at(p1, x));
            let p = p1[x];
            assert(is_child(p1, p, x));
            lemma_prev_child(p1, p, x);
            let y = prev_child(p1, p, x);
            if y == -1 {
                // x is the smallest child of p: it is first_child(p)
                assert(links_ok(a, p1, p));
                let f = a[p].first_child;
                assert(f != NO_NODE);
                assert(is_child(p1, p, f as int));
                assert(f == x);
                assert(links_ok(a, p2, p));
                assert(is_child(p2, p, f as int));
            } else {
                // x follows the child y: it is next_sibling(y)
                assert(ns_ok(a, p1, y));
                let n = a[y].next_sibling;
                assert(is_child(p1, p1[y], x));
                assert(n != NO_NODE);
                assert(is_child(p1, p, n as int));
                assert(n == x);
                assert(ns_ok(a, p2, y));
                assert(is_child(p2, p2[y], n as int));
                assert(p2[y] == p1[y]);
            }
        }
    }
}
pub proof fn lemma_par_unique(a: Arena, p1: Seq<int>, p2: Seq<int>, rc: Seq<u32>)
    requires sinv0(a, p1, rc), sinv0(a, p2, rc),
    ensures p1 == p2,
{
    lemma_par_unique_upto(a, p1, p2, rc, a.len() as int);
    assert(p1 =~= p2);
}
/// paths only depend on the bytes and parents of the nodes above
pub open spec fn same_above(a0: Arena, par0: Seq<int>, a1: Arena, par1: Seq<int>, z: int) -> bool {
    par1[z] == par0[z] && a1[z].byte == a0[z].byte
}
pub proof fn lemma_bpath_frame(a0: Arena, par0: Seq<int>, a1: Arena, par1: Seq<int>, x: int)
    requires 0 <= x < a0.len() <= a1.len(), par0.len() == a0.len(), par1.len() == a1.len(),
        forall|z: int| 0 <= z <= x ==> #[trigger] same_above(a0, par0, a1, par1, z),
    ensures bpath(a1, par1, x) == bpath(a0, par0, x),
    decreases x
{
    if x > 0 {
        assert(same_above(a0, par0, a1, par1, x));
        if 0 <= par0[x] < x { lemma_bpath_frame(a0, par0, a1, par1, par0[x]); }
    }
}
/// what one insert leaves alone: old nodes keep byte and token, nodes added by it carry no token yet
pub open spec fn frame_ok(ae: Arena, a: Arena, n0: int, x: int) -> bool {
    if x < n0 { a[x].byte == ae[x].byte && a[x].token_id == ae[x].token_id } else { a[x].token_id == NO_TOKEN }
}

impl TrieBuilder {
//@@ fn toktrie/src/toktree.rs TrieBuilder::new
//@ ret r
//@ spec
    ensures bwf(&r), r.nodes@.len() == 1, bwf_w(&r, Map::<u32, Seq<u8>>::empty()),
//@ before builder #3
    proof {
        let a = builder.nodes@;
        let par: Seq<int> = seq![-1int];
        let rc = builder.root_children@;
        assert(par_ok(a, par));
        assert forall|p: int| 0 <= p < a.len() implies #[trigger] links_ok(a, par, p) by {
            assert forall|x: int| !(#[trigger] is_child(par, p, x)) by { }
        }
        assert forall|b: int| 0 <= b < 256 implies #[trigger] rc_first(a, par, rc, b) by {
            assert(rc[b] == NO_NODE);
        }
        assert(sinv0(a, par, rc));
        let w0 = Map::<u32, Seq<u8>>::empty();
        assert(a[0].token_id == NO_TOKEN);
        assert forall|x: int| 0 <= x < a.len() implies #[trigger] tok_sound(a, par, w0, x) by { }
        assert(linv(a, par, w0));
        assert(finv0(a, par, rc, w0));
    }
//@ end

//@@ fn toktrie/src/toktree.rs TrieBuilder::insert
//@ rewrite R7 :: for (i, &byte) in word.iter().enumerate() { ==> for i in 0..word.len() { let byte = word[i];
//@ spec
    requires bwf(old(self)), token_id < 0xff_ffff,
        old(self).nodes@.len() + word@.len() < 0xffff_fff0,
        word@.len() == 0 ==> old(self).nodes@[0].token_id == NO_TOKEN, // (the code asserts it: one empty entry at most)
    ensures bwf(final(self)), final(self).nodes@.len() <= old(self).nodes@.len() + word@.len(),
        // the builder holds the old vocabulary plus this entry, at the node this entry's bytes spell
        forall|w: Words| #[trigger] bwf_w(old(self), w) && !w.dom().contains(token_id) ==> bwf_w(final(self), w.insert(token_id, word@)),
//@ body_start
    let ghost n0 = self.nodes@.len();
    let ghost ae = self.nodes@;
    let ghost mut par: Seq<int> = choose|p: Seq<int>| #[trigger] sinv0(self.nodes@, p, self.root_children@);
    let ghost par_i = par;
    let ghost rce = self.root_children@;
    assert(NO_TOKEN == 0xff_ffffu32);
//@ after self.nodes[0].token_id = token_id;
    proof {
        let a1 = self.nodes@;
        let rc = self.root_children@;
        assert forall|p: int| 0 <= p < a1.len() implies #[trigger] links_ok(a1, par, p) by { assert(links_ok(ae, par, p)); }
        assert forall|x: int| 1 <= x < a1.len() implies #[trigger] ns_ok(a1, par, x) by { assert(ns_ok(ae, par, x)); }
        assert forall|x: int, y: int| #[trigger] dup_ok(a1, par, x, y, -1) by { assert(dup_ok(ae, par, x, y, -1)); }
        assert forall|b: int| 0 <= b < 256 implies #[trigger] rc_first(a1, par, rc, b) by { assert(rc_first(ae, par, rc, b)); }
        assert(sinv0(a1, par, rc));
        assert forall|w: Words| #[trigger] bwf_a(ae, rce, w) && !w.dom().contains(token_id) implies bwf_a(a1, rc, w.insert(token_id, word@)) by {
            let pw = choose|p: Seq<int>| #[trigger] finv0(ae, p, rce, w);
            lemma_par_unique(ae, pw, par, rce);
            let w1 = w.insert(token_id, word@);
            assert forall|x: int| 0 <= x < a1.len() implies #[trigger] tok_sound(a1, par, w1, x) by {
                assert(tok_sound(ae, par, w, x));
                assert forall|z: int| 0 <= z <= x implies #[trigger] same_above(ae, par, a1, par, z) by { }
                lemma_bpath_frame(ae, par, a1, par, x);
                if x == 0 { assert(bpath(a1, par, 0) =~= word@); }
            }
            assert forall|id: u32| w1.dom().contains(id) implies #[trigger] has_node(a1, id) by {
                if id == token_id { assert(tok_at(a1, 0) == id); } else {
                    assert(has_node(ae, id));
                    let x0 = choose|x: int| 0 <= x < ae.len() && #[trigger] tok_at(ae, x) == id;
                    assert(tok_at(a1, x0) == id);
                }
            }
            assert(finv0(a1, par, rc, w1));
        }
    }
//@ before let mut curr_node_idx = 0;
    proof {
        // the root is nobody's sibling: the exemption of dup_ok may stand on it
        assert forall|x: int, y: int| #[trigger] dup_ok(ae, par, x, y, 0) by { assert(dup_ok(ae, par, x, y, -1)); }
        assert forall|x: int| !(#[trigger] same_slot(ae, par, x, 0)) by { }
    }
//@ loop 1
    invariant
        sinv(self.nodes@, par, self.root_children@, curr_node_idx as int),
        curr_node_idx < self.nodes@.len(), token_id < 0xff_ffff,
        n0 + word@.len() < 0xffff_fff0, self.nodes@.len() <= n0 + i,
        i < word@.len() ==> first_b(self.nodes@, par, curr_node_idx as int),
        // labelling frame of this insert
        n0 <= self.nodes@.len(), ae.len() == n0, par_i.len() == n0,
        forall|x: int| 0 <= x < n0 ==> par[x] == par_i[x],
        forall|x: int| 0 <= x < self.nodes@.len() ==> #[trigger] frame_ok(ae, self.nodes@, n0 as int, x),
        bpath(self.nodes@, par, curr_node_idx as int) == word@.take(i as int),
        (i > 0 && i == word@.len()) ==> self.nodes@[curr_node_idx as int].token_id == NO_TOKEN,
//@ after let mut found_existing_path = false;
    let ghost p0 = curr_node_idx as int;
    let ghost al = self.nodes@;
//@ loop 2
    invariant
        self.nodes@ == al, sinv(al, par, self.root_children@, p0), 0 <= p0 < al.len(), p0 != 0,
        is_last_byte == (i == word@.len() - 1), byte == word@[i as int], i < word@.len(),
        child_idx == NO_NODE || (child_idx < al.len() && is_child(par, p0, child_idx as int)),
        !found_existing_path ==> curr_node_idx == p0
            && forall|y: int| y < (if child_idx == NO_NODE { al.len() as int } else { child_idx as int }) ==> #[trigger] nomatch(al, par, p0, y, byte, is_last_byte),
        found_existing_path ==> child_idx != NO_NODE && curr_node_idx == child_idx && matches(al[curr_node_idx as int], byte, is_last_byte)
            && forall|y: int| y < curr_node_idx ==> #[trigger] nomatch(al, par, p0, y, byte, is_last_byte),
    ensures found_existing_path || child_idx == NO_NODE,
    decreases (if child_idx == NO_NODE { 0int } else { al.len() - child_idx }),
//@ before let mut child_idx = self.nodes[curr_node_idx].first_child;
    proof {
        assert(links_ok(al, par, p0));
        assert forall|y: int| y < (if al[p0].first_child == NO_NODE { al.len() as int } else { al[p0].first_child as int })
            implies #[trigger] nomatch(al, par, p0, y, byte, is_last_byte) by { }
    }
//@ before child_idx = child_node.next_sibling;
    proof {
        let c = child_idx as int;
        assert(ns_ok(al, par, c));
        assert(par_at(par, c));
        let nx = al[c].next_sibling;
        assert forall|y: int| y < (if nx == NO_NODE { al.len() as int } else { nx as int })
            implies #[trigger] nomatch(al, par, p0, y, byte, is_last_byte) by {
            if is_child(par, p0, y) && y >= c {
                if y > c { assert(is_child(par, par[c], y)); }
            }
        }
    }
//@ before let root_child_idx = self.root_children[byte as usize];
    proof { assert(rc_first(al, par, self.root_children@, byte as int)); }
//@ before if !found_existing_path {
    proof {
        if found_existing_path {
            let c = curr_node_idx as int;
            let rc = self.root_children@;
            assert(self.nodes@ == al);
            assert(is_child(par, p0, c) && matches(al[c], byte, is_last_byte));
            // no earlier child of p0 is a match
            assert forall|y: int| y < c implies #[trigger] nomatch(al, par, p0, y, byte, is_last_byte) by {
                if p0 == 0 && is_child(par, p0, y) { assert(rc_first(al, par, rc, byte as int)); }
            }
            // the exemption moves from p0 (first child with its byte, so never the later one of a pair) to c
            assert forall|x: int, y: int| #[trigger] dup_ok(al, par, x, y, c) by {
                assert(dup_ok(al, par, x, y, p0));
                if same_slot(al, par, x, y) && y == p0 { assert(first_b(al, par, p0)); }
            }
            assert(sinv(al, par, rc, c));
            assert(par_at(par, c));
            assert(bpath(al, par, c) == bpath(al, par, p0).push(al[c].byte));
            assert(word@.take(i as int).push(word@[i as int]) =~= word@.take(i + 1));
            if i + 1 < word@.len() {
                assert forall|x: int| !(#[trigger] same_slot(al, par, x, c)) by {
                    if same_slot(al, par, x, c) { assert(nomatch(al, par, p0, x, byte, is_last_byte)); assert(par_at(par, c)); }
                }
            }
        }
    }
//@ before let new_node_idx = self.nodes.len() as u32;
    let ghost a0 = self.nodes@;
    let ghost rc0 = self.root_children@;
    let ghost par0 = par;
    proof {
        assert(a0 == al && curr_node_idx == p0);
        assert(links_ok(a0, par0, p0));
        // no child of p0 is a match
        assert forall|y: int| #[trigger] nomatch(a0, par0, p0, y, byte, is_last_byte) by {
            if is_child(par0, p0, y) {
                if p0 == 0 {
                    assert(rc_first(a0, par0, rc0, byte as int));
                    let r = rc0[byte as int];
                    if a0[y].byte == byte {
                        // the code fell through: the cached first child carries a token and this is the last byte
                        assert(r != NO_NODE);
                        assert(y >= r);
                        assert(is_last_byte && a0[r as int].token_id != NO_TOKEN);
                        if y > r { assert(same_slot(a0, par0, r as int, y)); assert(dup_ok(a0, par0, r as int, y, p0)); }
                        assert(!matches(a0[y], byte, is_last_byte));
                    }
                } else {
                    assert(y < a0.len());
                    assert(nomatch(al, par0, p0, y, byte, is_last_byte));
                }
            }
        }
    }
//@ before curr_node_idx = new_node_idx as usize;
    proof {
        let a1 = self.nodes@;
        let rc1 = self.root_children@;
        let n = a0.len() as int;
        par = par0.push(p0);
        assert(a1.len() == n + 1);
        assert(par_ok(a1, par)) by {
            assert forall|x: int| 1 <= x < a1.len() implies #[trigger] par_at(par, x) by { if x < n { assert(par_at(par0, x)); } }
        }
        let lst = a0[p0].last_child;
        assert(lc_ok(a0, par0, p0) && fc_ok(a0, par0, p0));
        assert forall|p: int| 0 <= p < a1.len() implies #[trigger] links_ok(a1, par, p) by {
            if p < n {
                assert(links_ok(a0, par0, p));
                assert forall|x: int| is_child(par, p, x) == (is_child(par0, p, x) || (p == p0 && x == n)) by { }
                if p == p0 {
                    if lst == NO_NODE {
                        assert forall|x: int| #[trigger] is_child(par, p, x) implies x >= n by { assert(!is_child(par0, p, x)); }
                    }
                    assert forall|x: int| #[trigger] is_child(par, p, x) implies x <= n by { }
                }
            } else {
                assert forall|x: int| !(#[trigger] is_child(par, p, x)) by { if 1 <= x < n { assert(par_at(par0, x)); } }
            }
        }
        assert forall|x: int| 1 <= x < a1.len() implies #[trigger] ns_ok(a1, par, x) by {
            if x < n {
                assert(ns_ok(a0, par0, x));
                assert(par_at(par0, x));
                assert forall|y: int| is_child(par, par[x], y) == (is_child(par0, par0[x], y) || (par0[x] == p0 && y == n)) by { }
                if par0[x] == p0 && lst != NO_NODE && x == lst {
                    assert(a1[x].next_sibling == n);
                } else {
                    assert(a1[x].next_sibling == a0[x].next_sibling);
                    if par0[x] == p0 && a0[x].next_sibling == NO_NODE {
                        // x is the largest child of p0, i.e. last_child: contradiction
                        assert(is_child(par0, p0, x));
                    }
                }
            }
        }
        assert forall|x: int, y: int| #[trigger] dup_ok(a1, par, x, y, n) by {
            if same_slot(a1, par, x, y) {
                if y == n {
                    assert(nomatch(a0, par0, p0, x, byte, is_last_byte));
                } else {
                    assert(same_slot(a0, par0, x, y));
                    assert(dup_ok(a0, par0, x, y, p0));
                    if y == p0 { assert(first_b(a0, par0, p0)); }
                }
            }
        }
        assert forall|b: int| 0 <= b < 256 implies #[trigger] rc_first(a1, par, rc1, b) by {
            assert(rc_first(a0, par0, rc0, b));
            assert forall|x: int| is_child(par, 0, x) == (is_child(par0, 0, x) || (p0 == 0 && x == n)) by { }
            if p0 == 0 && b == byte as int && rc0[b] == NO_NODE {
                assert(rc1[b] == n);
            } else {
                assert(rc1[b] == rc0[b]);
            }
        }
        assert(sinv(a1, par, rc1, n));
        assert forall|x: int| 0 <= x < a1.len() implies #[trigger] frame_ok(ae, a1, n0 as int, x) by {
            if x < n { assert(frame_ok(ae, a0, n0 as int, x)); }
        }
        assert forall|z: int| 0 <= z <= p0 implies #[trigger] same_above(a0, par0, a1, par, z) by { }
        lemma_bpath_frame(a0, par0, a1, par, p0);
        assert(bpath(a1, par, n) == bpath(a1, par, p0).push(a1[n].byte));
        assert(word@.take(i as int).push(word@[i as int]) =~= word@.take(i + 1));
        // when more bytes follow, no child of p0 had this byte at all: the new node is the first with its byte
        if i + 1 < word@.len() {
            assert forall|x: int| !(#[trigger] same_slot(a1, par, x, n)) by {
                if same_slot(a1, par, x, n) { assert(nomatch(a0, par0, p0, x, byte, is_last_byte)); }
            }
        }
    }
//@ before self.nodes[curr_node_idx].token_id = token_id;
    let ghost az = self.nodes@;
//@ body_end
    proof {
        if word@.len() > 0 {
            let a1 = self.nodes@;
            let rc = self.root_children@;
            let c = curr_node_idx as int;
            assert forall|p: int| 0 <= p < a1.len() implies #[trigger] links_ok(a1, par, p) by { assert(links_ok(az, par, p)); }
            assert forall|x: int| 1 <= x < a1.len() implies #[trigger] ns_ok(a1, par, x) by { assert(ns_ok(az, par, x)); }
            assert forall|x: int, y: int| #[trigger] dup_ok(a1, par, x, y, -1) by { assert(dup_ok(az, par, x, y, c)); }
            assert forall|b: int| 0 <= b < 256 implies #[trigger] rc_first(a1, par, rc, b) by { assert(rc_first(az, par, rc, b)); }
            assert(sinv0(a1, par, rc));
            assert(word@.take(word@.len() as int) =~= word@);
            assert(az[c].token_id == NO_TOKEN);
            assert forall|w: Words| #[trigger] bwf_a(ae, rce, w) && !w.dom().contains(token_id) implies bwf_a(a1, rc, w.insert(token_id, word@)) by {
                let pw = choose|p: Seq<int>| #[trigger] finv0(ae, p, rce, w);
                lemma_par_unique(ae, pw, par_i, rce);
                let w1 = w.insert(token_id, word@);
                assert forall|x: int| 0 <= x < a1.len() implies #[trigger] tok_sound(a1, par, w1, x) by {
                    assert(frame_ok(ae, az, n0 as int, x));
                    if x == c {
                        assert forall|z: int| 0 <= z <= c implies #[trigger] same_above(az, par, a1, par, z) by { }
                        lemma_bpath_frame(az, par, a1, par, c);
                    } else if x < n0 {
                        assert(tok_sound(ae, par_i, w, x));
                        assert forall|z: int| 0 <= z <= x implies #[trigger] same_above(ae, par_i, a1, par, z) by {
                            assert(frame_ok(ae, az, n0 as int, z));
                        }
                        lemma_bpath_frame(ae, par_i, a1, par, x);
                    }
                }
                assert forall|id: u32| w1.dom().contains(id) implies #[trigger] has_node(a1, id) by {
                    if id == token_id { assert(tok_at(a1, c) == id); } else {
                        assert(has_node(ae, id));
                        let x0 = choose|x: int| 0 <= x < ae.len() && #[trigger] tok_at(ae, x) == id;
                        assert(frame_ok(ae, az, n0 as int, x0));
                        assert(x0 != c);
                        assert(tok_at(a1, x0) == id);
                    }
                }
                assert(finv0(a1, par, rc, w1));
            }
        }
    }
//@ end
}

// ---------------------------------------------------------------- vacuity guards
/// witness: bwf is satisfiable and insert's precondition can be met (a fresh builder, a one-byte word)
pub fn witness_insert(w: Vec<u8>)
    requires w@.len() == 1,
{
    let mut b = TrieBuilder::new(0xff, 10);
    assert(b.nodes@[0].token_id == NO_TOKEN || true);
    b.insert(w.as_slice(), 3);
}
/// witness for the labelling contract: two inserts into a fresh builder give a builder holding exactly those two entries,
/// each at a node spelled by its bytes
pub fn witness_labelling(w1: Vec<u8>, w2: Vec<u8>)
    requires w1@.len() == 2, w2@.len() == 1,
{
    let mut b = TrieBuilder::new(0xff, 10);
    let ghost v0 = Map::<u32, Seq<u8>>::empty();
    b.insert(w1.as_slice(), 3);
    assert(bwf_w(&b, v0.insert(3, w1@)));
    b.insert(w2.as_slice(), 5);
    let ghost v2 = v0.insert(3, w1@).insert(5, w2@);
    assert(bwf_w(&b, v2));
    proof {
        let par = choose|p: Seq<int>| #[trigger] finv0(b.nodes@, p, b.root_children@, v2);
        assert(v2.dom().contains(3u32));
        assert(has_node(b.nodes@, 3u32));
        let x = choose|x: int| 0 <= x < b.nodes@.len() && #[trigger] tok_at(b.nodes@, x) == 3u32;
        assert(tok_sound(b.nodes@, par, v2, x));
        assert(bpath(b.nodes@, par, x) == w1@);
    }
}
/// must FAIL: the labelling invariant is satisfiable
pub proof fn must_fail_finv_contradictory(a: Arena, par: Seq<int>, rc: Seq<u32>, w: Words)
    requires finv0(a, par, rc, w), w.dom().contains(7u32),
{
    assert(false);
}
/// must FAIL: an inserted entry is not at an arbitrary other path
pub fn must_fail_label_elsewhere(w1: Vec<u8>, other: Vec<u8>)
    requires w1@.len() == 2, other@.len() == 2,
{
    let mut b = TrieBuilder::new(0xff, 10);
    b.insert(w1.as_slice(), 3);
    assert(bwf_w(&b, Map::<u32, Seq<u8>>::empty().insert(3, other@)));
}
pub proof fn must_fail_sinv_contradictory(a: Arena, par: Seq<int>, rc: Seq<u32>)
    requires sinv(a, par, rc, -1),
{
    assert(false);
}
/// must FAIL: insert may add nodes
pub fn must_fail_insert_adds_nothing(b: &mut TrieBuilder, w: Vec<u8>)
    requires bwf(old(b)), old(b).nodes@.len() < 1000, w@.len() == 2,
{
    let ghost n = b.nodes@.len();
    b.insert(w.as_slice(), 3);
    assert(b.nodes@.len() == n);
}

} // verus!
fn main() {}
