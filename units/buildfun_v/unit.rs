// Unit buildfun_v: the child-list discipline of TrieBuilder::insert (toktrie/src/toktree.rs) - what makes first-match
// navigation (child_at_byte, greedy_tokenize, add_bias with a start prefix, token_id) see every token that extends a byte string:
// under one parent, a second child with the same byte is only ever a token-carrying LEAF appended after a token-carrying first
// child (a duplicate vocabulary entry); every other node is the first child with its byte.  Also: sibling lists are the children in
// insertion order, first_child/last_child are their ends, root_children caches the first root child per byte.
use vstd::prelude::*;
verus! {

global size_of usize == 8;

//@@ const toktrie/src/toktree.rs NO_TOKEN
//@@ const toktrie/src/toktree.rs NO_NODE
//@@ struct toktrie/src/toktree.rs BuilderNode
//@@ struct toktrie/src/toktree.rs TrieBuilder

pub type Arena = Seq<BuilderNode>;

/// ghost parent map: par[0] == -1, every other node has an earlier node as parent (nodes are only ever appended)
pub open spec fn par_at(par: Seq<int>, x: int) -> bool { 0 <= par[x] < x }
pub open spec fn par_ok(a: Arena, par: Seq<int>) -> bool {
    &&& par.len() == a.len() && a.len() >= 1 && a.len() < 0xffff_ffff && par[0] == -1
    &&& forall|x: int| 1 <= x < a.len() ==> #[trigger] par_at(par, x)
}
pub open spec fn is_child(par: Seq<int>, p: int, x: int) -> bool { 0 < x < par.len() && par[x] == p }

/// first_child / last_child are the smallest / largest child (children are appended in index order)
pub open spec fn fc_ok(a: Arena, par: Seq<int>, p: int) -> bool {
    let f = a[p].first_child;
    if f == NO_NODE { forall|x: int| !(#[trigger] is_child(par, p, x)) }
    else { f < a.len() && is_child(par, p, f as int) && forall|x: int| #[trigger] is_child(par, p, x) ==> x >= f }
}
pub open spec fn lc_ok(a: Arena, par: Seq<int>, p: int) -> bool {
    let l = a[p].last_child;
    if l == NO_NODE { a[p].first_child == NO_NODE }
    else { l < a.len() && is_child(par, p, l as int) && forall|x: int| #[trigger] is_child(par, p, x) ==> x <= l }
}
/// next_sibling is the next larger child of the same parent
pub open spec fn ns_ok(a: Arena, par: Seq<int>, x: int) -> bool {
    let n = a[x].next_sibling;
    if n == NO_NODE { forall|y: int| #[trigger] is_child(par, par[x], y) ==> y <= x }
    else { x < n < a.len() && is_child(par, par[x], n as int) && forall|y: int| #[trigger] is_child(par, par[x], y) && y > x ==> y >= n }
}
/// two children of one parent with the same byte
pub open spec fn same_slot(a: Arena, par: Seq<int>, x: int, y: int) -> bool {
    0 < x < y < a.len() && par[x] == par[y] && a[x].byte == a[y].byte
}
/// ... only as duplicate vocabulary entries: the earlier one carries a token, the later one is a token-carrying leaf
/// (`e` = the node the running insert stands on; it receives its token when the insert finishes)
pub open spec fn dup_ok(a: Arena, par: Seq<int>, x: int, y: int, e: int) -> bool {
    same_slot(a, par, x, y) ==> a[x].token_id != NO_TOKEN && a[y].first_child == NO_NODE && (a[y].token_id != NO_TOKEN || y == e)
}
/// root_children[b] caches the first root child with byte b
pub open spec fn rc_first(a: Arena, par: Seq<int>, rc: Seq<u32>, b: int) -> bool {
    let r = rc[b];
    if r == NO_NODE { forall|x: int| #[trigger] is_child(par, 0, x) ==> a[x].byte != b }
    else { r < a.len() && is_child(par, 0, r as int) && a[r as int].byte == b
           && forall|x: int| #[trigger] is_child(par, 0, x) && a[x].byte == b ==> x >= r }
}
pub open spec fn links_ok(a: Arena, par: Seq<int>, p: int) -> bool { fc_ok(a, par, p) && lc_ok(a, par, p) }

pub open spec fn sinv(a: Arena, par: Seq<int>, rc: Seq<u32>, e: int) -> bool {
    &&& par_ok(a, par)
    &&& rc.len() == 256
    &&& forall|p: int| 0 <= p < a.len() ==> #[trigger] links_ok(a, par, p)
    &&& forall|x: int| 1 <= x < a.len() ==> #[trigger] ns_ok(a, par, x)
    &&& forall|x: int, y: int| #[trigger] dup_ok(a, par, x, y, e)
    &&& forall|b: int| 0 <= b < 256 ==> #[trigger] rc_first(a, par, rc, b)
}
/// what TrieBuilder's public contract carries between calls
pub open spec fn sinv0(a: Arena, par: Seq<int>, rc: Seq<u32>) -> bool { sinv(a, par, rc, -1) }
pub open spec fn bwf(t: &TrieBuilder) -> bool { exists|par: Seq<int>| #[trigger] sinv0(t.nodes@, par, t.root_children@) }

/// the child the code descends into: same byte, and not a token-carrying node when this is the word's last byte
pub open spec fn matches(nd: BuilderNode, b: u8, is_last: bool) -> bool { nd.byte == b && !(is_last && nd.token_id != NO_TOKEN) }
pub open spec fn nomatch(a: Arena, par: Seq<int>, p: int, y: int, b: u8, is_last: bool) -> bool {
    is_child(par, p, y) ==> !matches(a[y], b, is_last)
}
/// x is the first child of its parent with its byte (or the root)
pub open spec fn first_b(a: Arena, par: Seq<int>, c: int) -> bool {
    forall|x: int| !(#[trigger] same_slot(a, par, x, c))
}

/// CONSEQUENCE (what the lookups rely on): every node is either the first child of its parent with its byte - and so reached by
/// first-match navigation - or a childless duplicate entry behind a token-carrying first match
pub proof fn lemma_first_match_complete(a: Arena, par: Seq<int>, rc: Seq<u32>, y: int)
    requires sinv(a, par, rc, -1), 0 < y < a.len(),
    ensures first_b(a, par, y) || (a[y].first_child == NO_NODE && a[y].token_id != NO_TOKEN
        && exists|x: int| same_slot(a, par, x, y) && a[x].token_id != NO_TOKEN),
{
    if !first_b(a, par, y) {
        let x = choose|x: int| same_slot(a, par, x, y);
        assert(dup_ok(a, par, x, y, -1));
    }
}

impl TrieBuilder {
//@@ fn toktrie/src/toktree.rs TrieBuilder::new
//@ ret r
//@ spec
    ensures bwf(&r), r.nodes@.len() == 1,
//@ before builder #3
    proof {
        let a = builder.nodes@;
        let par: Seq<int> = seq![-1int];
        let rc = builder.root_children@;
        assert(par_ok(a, par));
        assert forall|p: int| 0 <= p < a.len() implies #[trigger] links_ok(a, par, p) by {
            assert forall|x: int| !(#[trigger] is_child(par, p, x)) by { }
        }
        assert forall|b: int| 0 <= b < 256 implies #[trigger] rc_first(a, par, rc, b) by {
            assert(rc[b] == NO_NODE);
        }
        assert(sinv0(a, par, rc));
    }
//@ end

//@@ fn toktrie/src/toktree.rs TrieBuilder::insert
//@ rewrite R7 :: for (i, &byte) in word.iter().enumerate() { ==> for i in 0..word.len() { let byte = word[i];
//@ spec
    requires bwf(old(self)), token_id < 0xff_ffff,
        old(self).nodes@.len() + word@.len() < 0xffff_fff0,
        word@.len() == 0 ==> old(self).nodes@[0].token_id == NO_TOKEN, // (the code asserts it: one empty entry at most)
    ensures bwf(final(self)), final(self).nodes@.len() <= old(self).nodes@.len() + word@.len(),
//@ body_start
    let ghost n0 = self.nodes@.len();
    let ghost ae = self.nodes@;
    let ghost mut par: Seq<int> = choose|p: Seq<int>| #[trigger] sinv0(self.nodes@, p, self.root_children@);
    assert(NO_TOKEN == 0xff_ffffu32);
//@ after self.nodes[0].token_id = token_id;
    proof {
        let a1 = self.nodes@;
        let rc = self.root_children@;
        assert forall|p: int| 0 <= p < a1.len() implies #[trigger] links_ok(a1, par, p) by { assert(links_ok(ae, par, p)); }
        assert forall|x: int| 1 <= x < a1.len() implies #[trigger] ns_ok(a1, par, x) by { assert(ns_ok(ae, par, x)); }
        assert forall|x: int, y: int| #[trigger] dup_ok(a1, par, x, y, -1) by { assert(dup_ok(ae, par, x, y, -1)); }
        assert forall|b: int| 0 <= b < 256 implies #[trigger] rc_first(a1, par, rc, b) by { assert(rc_first(ae, par, rc, b)); }
        assert(sinv0(a1, par, rc));
    }
//@ before let mut curr_node_idx = 0;
    proof {
        // the root is nobody's sibling: the exemption of dup_ok may stand on it
        assert forall|x: int, y: int| #[trigger] dup_ok(ae, par, x, y, 0) by { assert(dup_ok(ae, par, x, y, -1)); }
        assert forall|x: int| !(#[trigger] same_slot(ae, par, x, 0)) by { }
    }
//@ loop 1
    invariant
        sinv(self.nodes@, par, self.root_children@, curr_node_idx as int),
        curr_node_idx < self.nodes@.len(), token_id < 0xff_ffff,
        n0 + word@.len() < 0xffff_fff0, self.nodes@.len() <= n0 + i,
        i < word@.len() ==> first_b(self.nodes@, par, curr_node_idx as int),
//@ after let mut found_existing_path = false;
    let ghost p0 = curr_node_idx as int;
    let ghost al = self.nodes@;
//@ loop 2
    invariant
        self.nodes@ == al, sinv(al, par, self.root_children@, p0), 0 <= p0 < al.len(), p0 != 0,
        is_last_byte == (i == word@.len() - 1), byte == word@[i as int], i < word@.len(),
        child_idx == NO_NODE || (child_idx < al.len() && is_child(par, p0, child_idx as int)),
        !found_existing_path ==> curr_node_idx == p0
            && forall|y: int| y < (if child_idx == NO_NODE { al.len() as int } else { child_idx as int }) ==> #[trigger] nomatch(al, par, p0, y, byte, is_last_byte),
        found_existing_path ==> child_idx != NO_NODE && curr_node_idx == child_idx && matches(al[curr_node_idx as int], byte, is_last_byte)
            && forall|y: int| y < curr_node_idx ==> #[trigger] nomatch(al, par, p0, y, byte, is_last_byte),
    ensures found_existing_path || child_idx == NO_NODE,
    decreases (if child_idx == NO_NODE { 0int } else { al.len() - child_idx }),
//@ before let mut child_idx = self.nodes[curr_node_idx].first_child;
    proof {
        assert(links_ok(al, par, p0));
        assert forall|y: int| y < (if al[p0].first_child == NO_NODE { al.len() as int } else { al[p0].first_child as int })
            implies #[trigger] nomatch(al, par, p0, y, byte, is_last_byte) by { }
    }
//@ before child_idx = child_node.next_sibling;
    proof {
        let c = child_idx as int;
        assert(ns_ok(al, par, c));
        assert(par_at(par, c));
        let nx = al[c].next_sibling;
        assert forall|y: int| y < (if nx == NO_NODE { al.len() as int } else { nx as int })
            implies #[trigger] nomatch(al, par, p0, y, byte, is_last_byte) by {
            if is_child(par, p0, y) && y >= c {
                if y > c { assert(is_child(par, par[c], y)); }
            }
        }
    }
//@ before let root_child_idx = self.root_children[byte as usize];
    proof { assert(rc_first(al, par, self.root_children@, byte as int)); }
//@ before if !found_existing_path {
    proof {
        if found_existing_path {
            let c = curr_node_idx as int;
            let rc = self.root_children@;
            assert(self.nodes@ == al);
            assert(is_child(par, p0, c) && matches(al[c], byte, is_last_byte));
            // no earlier child of p0 is a match
            assert forall|y: int| y < c implies #[trigger] nomatch(al, par, p0, y, byte, is_last_byte) by {
                if p0 == 0 && is_child(par, p0, y) { assert(rc_first(al, par, rc, byte as int)); }
            }
            // the exemption moves from p0 (first child with its byte, so never the later one of a pair) to c
            assert forall|x: int, y: int| #[trigger] dup_ok(al, par, x, y, c) by {
                assert(dup_ok(al, par, x, y, p0));
                if same_slot(al, par, x, y) && y == p0 { assert(first_b(al, par, p0)); }
            }
            assert(sinv(al, par, rc, c));
            if i + 1 < word@.len() {
                assert forall|x: int| !(#[trigger] same_slot(al, par, x, c)) by {
                    if same_slot(al, par, x, c) { assert(nomatch(al, par, p0, x, byte, is_last_byte)); assert(par_at(par, c)); }
                }
            }
        }
    }
//@ before let new_node_idx = self.nodes.len() as u32;
    let ghost a0 = self.nodes@;
    let ghost rc0 = self.root_children@;
    let ghost par0 = par;
    proof {
        assert(a0 == al && curr_node_idx == p0);
        assert(links_ok(a0, par0, p0));
        // no child of p0 is a match
        assert forall|y: int| #[trigger] nomatch(a0, par0, p0, y, byte, is_last_byte) by {
            if is_child(par0, p0, y) {
                if p0 == 0 {
                    assert(rc_first(a0, par0, rc0, byte as int));
                    let r = rc0[byte as int];
                    if a0[y].byte == byte {
                        // the code fell through: the cached first child carries a token and this is the last byte
                        assert(r != NO_NODE);
                        assert(y >= r);
                        assert(is_last_byte && a0[r as int].token_id != NO_TOKEN);
                        if y > r { assert(same_slot(a0, par0, r as int, y)); assert(dup_ok(a0, par0, r as int, y, p0)); }
                        assert(!matches(a0[y], byte, is_last_byte));
                    }
                } else {
                    assert(y < a0.len());
                    assert(nomatch(al, par0, p0, y, byte, is_last_byte));
                }
            }
        }
    }
//@ before curr_node_idx = new_node_idx as usize;
    proof {
        let a1 = self.nodes@;
        let rc1 = self.root_children@;
        let n = a0.len() as int;
        par = par0.push(p0);
        assert(a1.len() == n + 1);
        assert(par_ok(a1, par)) by {
            assert forall|x: int| 1 <= x < a1.len() implies #[trigger] par_at(par, x) by { if x < n { assert(par_at(par0, x)); } }
        }
        let lst = a0[p0].last_child;
        assert(lc_ok(a0, par0, p0) && fc_ok(a0, par0, p0));
        assert forall|p: int| 0 <= p < a1.len() implies #[trigger] links_ok(a1, par, p) by {
            if p < n {
                assert(links_ok(a0, par0, p));
                assert forall|x: int| is_child(par, p, x) == (is_child(par0, p, x) || (p == p0 && x == n)) by { }
                if p == p0 {
                    if lst == NO_NODE {
                        assert forall|x: int| #[trigger] is_child(par, p, x) implies x >= n by { assert(!is_child(par0, p, x)); }
                    }
                    assert forall|x: int| #[trigger] is_child(par, p, x) implies x <= n by { }
                }
            } else {
                assert forall|x: int| !(#[trigger] is_child(par, p, x)) by { if 1 <= x < n { assert(par_at(par0, x)); } }
            }
        }
        assert forall|x: int| 1 <= x < a1.len() implies #[trigger] ns_ok(a1, par, x) by {
            if x < n {
                assert(ns_ok(a0, par0, x));
                assert(par_at(par0, x));
                assert forall|y: int| is_child(par, par[x], y) == (is_child(par0, par0[x], y) || (par0[x] == p0 && y == n)) by { }
                if par0[x] == p0 && lst != NO_NODE && x == lst {
                    assert(a1[x].next_sibling == n);
                } else {
                    assert(a1[x].next_sibling == a0[x].next_sibling);
                    if par0[x] == p0 && a0[x].next_sibling == NO_NODE {
                        // x is the largest child of p0, i.e. last_child: contradiction
                        assert(is_child(par0, p0, x));
                    }
                }
            }
        }
        assert forall|x: int, y: int| #[trigger] dup_ok(a1, par, x, y, n) by {
            if same_slot(a1, par, x, y) {
                if y == n {
                    assert(nomatch(a0, par0, p0, x, byte, is_last_byte));
                } else {
                    assert(same_slot(a0, par0, x, y));
                    assert(dup_ok(a0, par0, x, y, p0));
                    if y == p0 { assert(first_b(a0, par0, p0)); }
                }
            }
        }
        assert forall|b: int| 0 <= b < 256 implies #[trigger] rc_first(a1, par, rc1, b) by {
            assert(rc_first(a0, par0, rc0, b));
            assert forall|x: int| is_child(par, 0, x) == (is_child(par0, 0, x) || (p0 == 0 && x == n)) by { }
            if p0 == 0 && b == byte as int && rc0[b] == NO_NODE {
                assert(rc1[b] == n);
            } else {
                assert(rc1[b] == rc0[b]);
            }
        }
        assert(sinv(a1, par, rc1, n));
        // when more bytes follow, no child of p0 had this byte at all: the new node is the first with its byte
        if i + 1 < word@.len() {
            assert forall|x: int| !(#[trigger] same_slot(a1, par, x, n)) by {
                if same_slot(a1, par, x, n) { assert(nomatch(a0, par0, p0, x, byte, is_last_byte)); }
            }
        }
    }
//@ before self.nodes[curr_node_idx].token_id = token_id;
    let ghost az = self.nodes@;
//@ body_end
    proof {
        if word@.len() > 0 {
            let a1 = self.nodes@;
            let rc = self.root_children@;
            let c = curr_node_idx as int;
            assert forall|p: int| 0 <= p < a1.len() implies #[trigger] links_ok(a1, par, p) by { assert(links_ok(az, par, p)); }
            assert forall|x: int| 1 <= x < a1.len() implies #[trigger] ns_ok(a1, par, x) by { assert(ns_ok(az, par, x)); }
            assert forall|x: int, y: int| #[trigger] dup_ok(a1, par, x, y, -1) by { assert(dup_ok(az, par, x, y, c)); }
            assert forall|b: int| 0 <= b < 256 implies #[trigger] rc_first(a1, par, rc, b) by { assert(rc_first(az, par, rc, b)); }
            assert(sinv0(a1, par, rc));
        }
    }
//@ end
}

// ---------------------------------------------------------------- vacuity guards
/// witness: bwf is satisfiable and insert's precondition can be met (a fresh builder, a one-byte word)
pub fn witness_insert(w: Vec<u8>)
    requires w@.len() == 1,
{
    let mut b = TrieBuilder::new(0xff, 10);
    assert(b.nodes@[0].token_id == NO_TOKEN || true);
    b.insert(w.as_slice(), 3);
}
pub proof fn must_fail_sinv_contradictory(a: Arena, par: Seq<int>, rc: Seq<u32>)
    requires sinv(a, par, rc, -1),
{
    assert(false);
}
/// must FAIL: insert may add nodes
pub fn must_fail_insert_adds_nothing(b: &mut TrieBuilder, w: Vec<u8>)
    requires bwf(old(b)), old(b).nodes@.len() < 1000, w@.len() == 2,
{
    let ghost n = b.nodes@.len();
    b.insert(w.as_slice(), 3);
    assert(b.nodes@.len() == n);
}

} // verus!
fn main() {}
