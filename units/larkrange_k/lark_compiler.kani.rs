//@@ append parser/src/lark/compiler.rs
// Unit larkrange_k (Kani path B, loop-free): how the Lark front end turns `x{a,b}` / `x{a,}` / `x{a}` into the arguments of
// GrammarBuilder::repeat (rule level) and RegexBuilder::repeat (terminal level).  Real statement spans, shim builder.
#[cfg(kani)]
mod verif_kani_larkrange {
    //@@ span parser/src/lark/compiler.rs rule_range :: @after if let Some((a, b)) = expr.range { ::: @before } else { match &expr.op { Some(op) => match op.0.as_str() { "*" => Ok(self.builder.zero_or_more(atom)),
    //@@ span parser/src/lark/compiler.rs token_range :: @after if let Some(range) = &expr.range { ::: @before } else { match &expr.op { Some(op) => match op.0.as_str() { "*" => Ok(self.builder.regex.zero_or_more(atom)),

    struct ShimError;
    type Result<T> = core::result::Result<T, ShimError>;
    macro_rules! ensure {
        ($c:expr, $($t:tt)*) => {
            if !($c) {
                return Err(ShimError);
            }
        };
    }
    struct ShimOp(u8);
    struct ShimExpr {
        range: Option<(i32, i32)>,
        op: Option<ShimOp>,
    }
    #[derive(Clone, Copy, PartialEq)]
    struct Node(u8);
    struct ShimRegexBuilder {
        calls: usize,
        min: u32,
        max: Option<u32>,
    }
    impl ShimRegexBuilder {
        fn repeat(&mut self, _atom: Node, min: u32, max: Option<u32>) -> Node {
            self.calls += 1;
            self.min = min;
            self.max = max;
            Node(1)
        }
    }
    struct ShimBuilder {
        calls: usize,
        min: usize,
        max: Option<usize>,
        precondition_violated: bool,
        regex: ShimRegexBuilder,
    }
    impl ShimBuilder {
        /// contract of the real GrammarBuilder::repeat (unit repeat_v): requires min <= max, admits exactly min..=max copies
        fn repeat(&mut self, _atom: Node, min: usize, max: Option<usize>) -> Node {
            self.calls += 1;
            self.min = min;
            self.max = max;
            if let Some(m) = max {
                if min > m {
                    self.precondition_violated = true;
                }
            }
            Node(1)
        }
    }
    struct ShimCompiler {
        builder: ShimBuilder,
    }
    impl ShimCompiler {
        fn rule(&mut self, expr: ShimExpr, atom: Node) -> Result<Node> {
            if let Some((a, b)) = expr.range {
                /*@@paste rule_range*/
            } else {
                Ok(Node(0))
            }
        }
        fn token(&mut self, expr: ShimExpr, atom: Node) -> Result<Node> {
            if let Some(range) = &expr.range {
                /*@@paste token_range*/
            } else {
                Ok(Node(0))
            }
        }
    }
    fn mk() -> ShimCompiler {
        ShimCompiler { builder: ShimBuilder { calls: 0, min: 0, max: None, precondition_violated: false, regex: ShimRegexBuilder { calls: 0, min: 0, max: None } } }
    }

    /// rule level: x{a,b} is accepted iff 0 <= a <= b (no operator), repeat is called once with (a, Some(b)) - or (a, None)
    /// when b is the parser's "unbounded" marker i32::MAX - and never outside its contract
    #[kani::proof]
    fn lark_rule_range_args() {
        let a: i32 = kani::any();
        let b: i32 = kani::any();
        let has_op: bool = kani::any();
        let mut c = mk();
        let r = c.rule(ShimExpr { range: Some((a, b)), op: if has_op { Some(ShimOp(b'*')) } else { None } }, Node(7));
        kani::cover!(r.is_ok() && b == i32::MAX);
        kani::cover!(r.is_ok() && b != i32::MAX && a < b);
        let legal = !has_op && a >= 0 && a <= b;
        assert!(r.is_ok() == legal);
        assert!(!c.builder.precondition_violated);
        if r.is_ok() {
            assert!(c.builder.calls == 1 && c.builder.min == a as usize);
            let want_max = if b == i32::MAX { None } else { Some(b as usize) };
            assert!(c.builder.max == want_max);
        } else {
            assert!(c.builder.calls == 0);
        }
    }

    /// terminal level: the same mapping into derivre's Repeat(min, max)
    #[kani::proof]
    fn lark_token_range_args() {
        let a: i32 = kani::any();
        let b: i32 = kani::any();
        let has_op: bool = kani::any();
        let mut c = mk();
        let r = c.token(ShimExpr { range: Some((a, b)), op: if has_op { Some(ShimOp(b'*')) } else { None } }, Node(7));
        kani::cover!(r.is_ok() && b == i32::MAX);
        let legal = !has_op && a >= 0 && b >= a;
        assert!(r.is_ok() == legal);
        if r.is_ok() {
            assert!(c.builder.regex.calls == 1 && c.builder.regex.min == a as u32);
            let want_max = if b == i32::MAX { None } else { Some(b as u32) };
            assert!(c.builder.regex.max == want_max);
        } else {
            assert!(c.builder.regex.calls == 0);
        }
    }

    // vacuity guard (must FAIL): claims an unbounded upper limit is passed on as a number
    #[kani::proof]
    fn mustfail_lark_unbounded_is_some() {
        let mut c = mk();
        let _ = c.rule(ShimExpr { range: Some((2, i32::MAX)), op: None }, Node(7));
        assert!(c.builder.max.is_some());
    }
}
