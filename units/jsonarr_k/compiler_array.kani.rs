//@@ append parser/src/json/compiler.rs
// Unit jsonarr_k (Kani path B): Compiler::gen_json_array - everything after the item grammars are known (from
// `let mut required_items = vec![];` to the end of the function), compiled against a grammar builder whose nodes ARE the sets of item
// counts they can produce.  minItems / maxItems / prefixItems admit exactly the array lengths in range.
#[cfg(kani)]
mod verif_kani_jsonarr {
    //@@ span parser/src/json/compiler.rs array_span :: let mut required_items = vec![]; ::: @block_end

    struct UnsatisfiableSchemaError {
        message: String,
    }
    /// stands for anyhow::Error: either an UnsatisfiableSchemaError or something else
    struct ShimError {
        unsat: bool,
    }
    static UNSAT_MARK: UnsatisfiableSchemaError = UnsatisfiableSchemaError { message: String::new() };
    impl ShimError {
        fn downcast_ref<T>(&self) -> Option<&UnsatisfiableSchemaError> {
            if self.unsat {
                Some(&UNSAT_MARK)
            } else {
                None
            }
        }
        fn context(self, _c: UnsatisfiableSchemaError) -> ShimError {
            ShimError { unsat: true }
        }
    }
    type Result<T> = core::result::Result<T, ShimError>;
    macro_rules! format {
        ($($t:tt)*) => {
            String::new()
        };
    }

    /// a grammar node = the set of numbers of array items it can produce (bit k = k items, k <= 7; bit 7 = "7 or more")
    #[derive(Clone, Copy, PartialEq)]
    struct NodeRef(u8);
    fn sumset(a: u8, b: u8) -> u8 {
        let mut r = 0u8;
        let mut i = 0;
        while i < 8 {
            if a & (1 << i) != 0 {
                let mut j = 0;
                while j < 8 {
                    if b & (1 << j) != 0 {
                        let k = if i + j > 7 { 7 } else { i + j };
                        r |= 1 << k;
                    }
                    j += 1;
                }
            }
            i += 1;
        }
        r
    }
    struct ShimBuilder;
    impl ShimBuilder {
        fn string(&mut self, _s: &str) -> NodeRef {
            NodeRef(1) // punctuation: zero items
        }
        fn empty(&mut self) -> NodeRef {
            NodeRef(1)
        }
        fn optional(&mut self, n: NodeRef) -> NodeRef {
            NodeRef(n.0 | 1)
        }
        /// contract of GrammarBuilder::join: concatenation = sumset of the count sets
        fn join(&mut self, ns: &[NodeRef]) -> NodeRef {
            let mut r = 1u8;
            let mut i = 0;
            while i < ns.len() {
                r = sumset(r, ns[i].0);
                i += 1;
            }
            NodeRef(r)
        }
    }
    const NP: usize = 2;
    struct ArraySchema {
        min_items: usize,
        max_items: Option<usize>,
        /// prefix item i compiles (true) or is unsatisfiable (false)
        prefix_items: Vec<bool>,
    }
    struct ShimCompiler {
        builder: ShimBuilder,
    }
    impl ShimCompiler {
        /// an item grammar produces exactly one item; `false` stands for an unsatisfiable item schema
        fn gen_json(&mut self, ok: &bool) -> Result<NodeRef> {
            if *ok {
                Ok(NodeRef(0b10))
            } else {
                Err(ShimError { unsat: true })
            }
        }
        /// contract of Compiler::sequence proved in repeat_v: zero or more items (comma separated)
        fn sequence(&mut self, item: NodeRef) -> Result<NodeRef> {
            assert!(item.0 == 0b10);
            Ok(NodeRef(0xff))
        }
        fn item_separator(&mut self) -> Result<NodeRef> {
            Ok(NodeRef(1))
        }
        fn array_tail(&mut self, arr: &ArraySchema, additional_item_grm: Option<NodeRef>) -> Result<NodeRef> {
            let mut max_items = arr.max_items;
            let min_items = arr.min_items;
            /*@@paste array_span*/
        }
    }

    fn run(n_prefix: usize) {
        let min_items: usize = kani::any();
        let max_items: Option<usize> = if kani::any() { Some(kani::any()) } else { None };
        kani::assume(min_items <= 2 && max_items.map_or(true, |m| m <= 2 && min_items <= m));
        let mut prefix_items = Vec::with_capacity(NP);
        let pok: [bool; NP] = kani::any();
        let mut i = 0;
        while i < NP {
            if i < n_prefix {
                prefix_items.push(pok[i]);
            }
            i += 1;
        }
        let have_additional: bool = kani::any();
        // as computed by the statements in front of the span: an unsatisfiable additional-item schema is tolerated only when the
        // prefix items alone can reach minItems
        kani::assume(have_additional || n_prefix >= min_items);
        let arr = ArraySchema { min_items, max_items, prefix_items };
        let mut c = ShimCompiler { builder: ShimBuilder };
        let r = c.array_tail(&arr, if have_additional { Some(NodeRef(0b10)) } else { None });
        // reference: the lengths a JSON array may have under this schema
        // position i (0-based) can be filled iff i < n_prefix ? pok[i] : have_additional; lengths are prefix-closed in that sense
        let mut fillable = 0usize; // number of leading positions that can be filled (capped at 15)
        while fillable < 5 {
            let ok = if fillable < n_prefix { pok[fillable] } else { have_additional };
            if !ok {
                break;
            }
            fillable += 1;
        }
        let k: usize = kani::any();
        kani::assume(k <= 4);
        let wanted = k >= min_items && max_items.map_or(true, |m| k <= m) && k <= fillable;
        match &r {
            Ok(n) => {
                assert!((n.0 & (1 << k) != 0) == wanted);
                // some length is admitted
                assert!(fillable >= min_items);
            }
            Err(e) => {
                // rejected exactly when minItems cannot be reached
                assert!(e.unsat && fillable < min_items);
            }
        }
        kani::cover!(r.is_ok() && min_items == 1 && max_items == Some(2));
        // NOTE: unreachable in json_array_lengths_p0 (no prefix items: the statements in front of the span guarantee that minItems can
        // be reached); unit.json registers `min_covers: 1` for that harness - the text is kept because CBMC's memory use on this
        // harness is sensitive to the formula (without this statement it exceeded the 14 GB guard)
        kani::cover!(r.is_err());
    }

    #[kani::proof]
    #[kani::unwind(10)]
    fn json_array_lengths_p0() {
        run(0);
    }
    // vacuity guard (must FAIL): claims the empty array is always admitted
    #[kani::proof]
    #[kani::unwind(10)]
    fn mustfail_json_array_empty_always() {
        let min_items: usize = kani::any();
        kani::assume(min_items <= 2);
        let arr = ArraySchema { min_items, max_items: None, prefix_items: Vec::new() };
        let mut c = ShimCompiler { builder: ShimBuilder };
        if let Ok(n) = c.array_tail(&arr, Some(NodeRef(0b10))) {
            assert!(n.0 & 1 != 0);
        }
    }
}
