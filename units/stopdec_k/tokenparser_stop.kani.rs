//@@ append parser/src/tokenparser.rs
// Unit stopdec_k (Kani path B, loop-free): the real text of TokenParser::{check_stop, is_accepting, stopped} and the EOS
// clause of compute_mask, against the stop decision the property states.
#[cfg(kani)]
mod verif_kani_stopdec {
    use crate::api::StopReason;
    use toktrie::{SimpleVob, TokenId, INVALID_TOKEN};

    //@@ fnspan parser/src/tokenparser.rs tp_check_stop TokenParser::check_stop
    //@@ fnspan parser/src/tokenparser.rs tp_is_accepting TokenParser::is_accepting
    //@@ fnspan parser/src/tokenparser.rs tp_stopped TokenParser::stopped
    //@@ span parser/src/tokenparser.rs eos_clause :: if self.is_accepting() { for &eos in &self.eos_tokens { ::: @before self.log_final(&prefix, &allowed_tokens);

    struct ShimError;
    type Result<T> = core::result::Result<T, ShimError>;
    macro_rules! infoln {
        ($($t:tt)*) => {};
    }

    struct ShimParser {
        accepting: bool,
        can_advance: bool,
        pending_lexeme: bool,
    }
    impl ShimParser {
        fn has_pending_lexeme_bytes(&self) -> bool {
            self.pending_lexeme
        }
        fn can_advance(&self) -> bool {
            self.can_advance
        }
        fn is_accepting(&mut self) -> bool {
            self.accepting
        }
    }
    struct ShimTrie {
        eos: TokenId,
    }
    impl ShimTrie {
        fn eos_token(&self) -> TokenId {
            self.eos
        }
    }
    struct ShimTP {
        trie: ShimTrie,
        parser: ShimParser,
        ff_bytes: bool,
        is_accepting_cache: Option<bool>,
        llm_tokens: Vec<TokenId>,
        eos_tokens: Vec<TokenId>,
        stop_reason: StopReason,
        stops: usize,
    }
    impl ShimTP {
        fn has_ff_bytes(&self) -> bool {
            self.ff_bytes
        }
        fn tok_trie(&self) -> &ShimTrie {
            &self.trie
        }
        fn stop(&mut self, _warn: &str, reason: StopReason) -> ShimError {
            self.stop_reason = reason;
            self.stops += 1;
            ShimError
        }
        /*@@paste tp_check_stop*/
        /*@@paste tp_is_accepting*/
        /*@@paste tp_stopped*/
        fn eos_clause(&mut self, mut allowed_tokens: SimpleVob) -> SimpleVob {
            /*@@paste eos_clause*/
            allowed_tokens
        }
    }

    /// two end-of-sequence tokens (7 = primary, 9 = extra, as set up by with_eos_tokens); 3 = an ordinary token
    fn mk(last_is_eos: bool, has_last: bool) -> ShimTP {
        let eos: TokenId = if kani::any() { 7 } else { 9 };
        let mut llm_tokens = Vec::with_capacity(1);
        if has_last {
            llm_tokens.push(if last_is_eos { eos } else { 3 });
        }
        let ff_bytes: bool = kani::any();
        let accepting: bool = kani::any();
        // the engine never reports "accepting" while grammar-forced bytes are still pending (the real is_accepting
        // is `!has_ff_bytes() && parser.is_accepting()`; the cache, when filled, was computed by that formula)
        let cache: Option<bool> = if kani::any() { Some(!ff_bytes && accepting) } else { None };
        ShimTP {
            trie: ShimTrie { eos: 7 },
            parser: ShimParser { accepting, can_advance: kani::any(), pending_lexeme: kani::any() },
            ff_bytes,
            is_accepting_cache: cache,
            llm_tokens,
            eos_tokens: vec![7, 9],
            stop_reason: StopReason::NotStopped,
            stops: 0,
        }
    }

    /// stop  <=>  text complete and (cannot be extended or EOS was just committed); reason tells which; no panic
    #[kani::proof]
    #[kani::unwind(4)]
    fn check_stop_formula() {
        let last_is_eos: bool = kani::any();
        let has_last: bool = kani::any();
        let mut tp = mk(last_is_eos, has_last);
        let complete = !tp.ff_bytes && tp.parser.accepting;
        let can_advance = tp.parser.can_advance;
        let pending_eos = has_last && last_is_eos;
        let r = tp.check_stop();
        kani::cover!(matches!(r, Ok(true)));
        kani::cover!(matches!(r, Ok(false)));
        let want = complete && (!can_advance || pending_eos);
        match r {
            Ok(b) => {
                assert!(b == want);
                assert!(tp.stopped() == want);
                if want {
                    assert!(tp.stops == 1);
                    let want_reason = if pending_eos { StopReason::EndOfSentence } else { StopReason::NoExtension };
                    assert!(tp.stop_reason == want_reason);
                } else {
                    assert!(tp.stops == 0 && tp.stop_reason == StopReason::NotStopped);
                }
            }
            Err(_) => assert!(false),
        }
    }

    /// EOS ids are added to the mask exactly when the engine reports the state as accepting
    #[kani::proof]
    #[kani::unwind(4)]
    fn mask_eos_iff_accepting() {
        let mut tp = mk(false, false);
        let complete = !tp.ff_bytes && tp.parser.accepting;
        let base = SimpleVob::alloc_with_capacity(20, 21);
        let out = tp.eos_clause(base);
        assert!(out.is_allowed(7) == complete && out.is_allowed(9) == complete); // every EOS id, not only the primary one
        let t: u32 = kani::any();
        kani::assume(t < 20 && t != 7 && t != 9);
        assert!(!out.is_allowed(t));
    }

    // vacuity guard (must FAIL): claims a pending EOS alone stops the engine even when the text is incomplete
    #[kani::proof]
    #[kani::unwind(4)]
    fn mustfail_eos_always_stops() {
        let mut tp = mk(true, true);
        let r = tp.check_stop();
        assert!(matches!(r, Ok(true)));
    }
}
