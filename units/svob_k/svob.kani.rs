//@@ append toktrie/src/svob.rs
// Unit svob_k (Kani path A): the iterator-adapter functions of SimpleVob that Verus rejects, against the plain-set meaning.
// Harness module appended to the real svob.rs (private fields visible).  Word count W is concrete per harness, every
// word, the size (within the last word) and the probed index are symbolic.  The loops are word-uniform.
#[cfg(kani)]
mod verif_kani_svob {
    use super::*;

    fn mk<const W: usize>(tail_clear: bool) -> SimpleVob {
        let data: [u32; W] = kani::any();
        let size: usize = kani::any();
        // size ranges over the last word AND the boundary just below it (alloc_token_set allocates one spare word
        // exactly when the vocabulary size is a multiple of 32)
        kani::assume(size <= 32 * W && (W == 0 || size >= 32 * (W - 1)));
        let v = SimpleVob { data: data.to_vec(), size };
        if tail_clear {
            // type invariant of masks: no bit at or above `size`
            let i: usize = kani::any();
            kani::assume(i < 32 * W);
            // (quantified through the symbolic probe below where needed; here enforce it word-wise)
            let last = W - 1;
            let keep = size - 32 * last;
            let m: u32 = if keep >= 32 { !0 } else { (1u32 << keep) - 1 };
            kani::assume(v.data[last] & !m == 0);
            let _ = i;
        }
        v
    }
    fn has(v: &SimpleVob, i: usize) -> bool {
        i < v.data.len() * 32 && v.data[i / 32] & (1 << (i % 32)) != 0
    }
    fn probe<const W: usize>() -> usize {
        let i: usize = kani::any();
        kani::assume(i < 32 * W + 3);
        i
    }

    macro_rules! binop_harness {
        ($name:ident, $w:expr, $unw:expr, |$a:ident, $b:ident, $c:ident| $call:expr, |$x:ident, $y:ident, $z:ident| $spec:expr) => {
            #[kani::proof]
            #[kani::unwind($unw)]
            fn $name() {
                let a0 = mk::<$w>(false);
                let b0 = mk::<$w>(false);
                let c0 = mk::<$w>(false);
                kani::assume(a0.size == b0.size && a0.size == c0.size);
                let i = probe::<$w>();
                let ($x, $y, $z) = (has(&a0, i), has(&b0, i), has(&c0, i));
                let want: bool = $spec;
                let mut $a = SimpleVob { data: a0.data.clone(), size: a0.size };
                let $b = &b0;
                let $c = &c0;
                $call;
                assert!(has(&$a, i) == want);
                assert!($a.size == a0.size && $a.data.len() == $w);
            }
        };
    }
    binop_harness!(svob_or_w1, 1, 4, |a, b, c| { let _ = c; a.or(b) }, |x, y, z| { let _ = z; x || y });
    binop_harness!(svob_or_w2, 2, 5, |a, b, c| { let _ = c; a.or(b) }, |x, y, z| { let _ = z; x || y });
    binop_harness!(svob_and_w1, 1, 4, |a, b, c| { let _ = c; a.and(b) }, |x, y, z| { let _ = z; x && y });
    binop_harness!(svob_and_w2, 2, 5, |a, b, c| { let _ = c; a.and(b) }, |x, y, z| { let _ = z; x && y });
    binop_harness!(svob_sub_w1, 1, 4, |a, b, c| { let _ = c; a.sub(b) }, |x, y, z| { let _ = z; x && !y });
    binop_harness!(svob_sub_w2, 2, 5, |a, b, c| { let _ = c; a.sub(b) }, |x, y, z| { let _ = z; x && !y });
    binop_harness!(svob_or_minus_w1, 1, 4, |a, b, c| a.or_minus(b, c), |x, y, z| x || (y && !z));
    binop_harness!(svob_or_minus_w2, 2, 5, |a, b, c| a.or_minus(b, c), |x, y, z| x || (y && !z));
    binop_harness!(svob_set_from_w2, 2, 5, |a, b, c| { let _ = c; a.set_from(b) }, |x, y, z| { let _ = (x, z); y });

    #[kani::proof]
    #[kani::unwind(5)]
    fn svob_and_is_zero_w2() {
        let a = mk::<2>(false);
        let b = mk::<2>(false);
        kani::assume(a.size == b.size);
        let i = probe::<2>();
        let r = a.and_is_zero(&b);
        if r {
            assert!(!(has(&a, i) && has(&b, i)));
        } else {
            assert!((a.data[0] & b.data[0]) != 0 || (a.data[1] & b.data[1]) != 0);
        }
    }

    /// `or` with a shorter right operand (the slicer ORs a trimmed mask into a full-size one)
    #[kani::proof]
    #[kani::unwind(5)]
    fn svob_or_shorter() {
        let a0 = mk::<2>(false);
        let b = mk::<1>(false);
        let i = probe::<2>();
        let mut a = a0.clone();
        a.or(&b);
        assert!(has(&a, i) == (has(&a0, i) || has(&b, i)));
        assert!(a.size == a0.size && a.data.len() == 2);
    }

    fn negated_h<const W: usize>() {
        let a = mk::<W>(false);
        let i = probe::<W>();
        let n = a.negated();
        assert!(n.size == a.size && n.data.len() == a.data.len());
        assert!(has(&n, i) == (i < a.size && !has(&a, i))); // complement inside [0, size), nothing above
    }
    #[kani::proof]
    #[kani::unwind(35)]
    fn svob_negated_w1() {
        negated_h::<1>();
    }
    #[kani::proof]
    #[kani::unwind(35)]
    fn svob_negated_w2() {
        negated_h::<2>();
    }
    fn set_all_h<const W: usize>() {
        let a = mk::<W>(false);
        let i = probe::<W>();
        let mut s = SimpleVob { data: a.data.clone(), size: a.size };
        let val: bool = kani::any();
        s.set_all(val);
        assert!(has(&s, i) == (val && i < a.size) && s.size == a.size);
    }
    #[kani::proof]
    #[kani::unwind(35)]
    fn svob_set_all_w1() {
        set_all_h::<1>();
    }
    #[kani::proof]
    #[kani::unwind(35)]
    fn svob_set_all_w2() {
        set_all_h::<2>();
    }
    #[kani::proof]
    #[kani::unwind(5)]
    fn svob_first_bit_w2() {
        let a = mk::<2>(false);
        let i = probe::<2>();
        let z = a.is_zero();
        if z {
            assert!(!has(&a, i));
        }
        match a.first_bit_set() {
            Some(k) => {
                assert!(!z && has(&a, k));
                if i < k {
                    assert!(!has(&a, i));
                }
            }
            None => assert!(z),
        }
    }
    #[kani::proof]
    #[kani::unwind(5)]
    fn svob_first_common_w2() {
        let a = mk::<2>(false);
        let b = mk::<2>(false);
        kani::assume(b.size == a.size);
        let i = probe::<2>();
        match a.first_bit_set_here_and_in(&b) {
            Some(k) => {
                assert!(has(&a, k) && has(&b, k));
                if i < k {
                    assert!(!(has(&a, i) && has(&b, i)));
                }
            }
            None => assert!(!(has(&a, i) && has(&b, i))),
        }
    }

    fn iter_set_h<const W: usize>() {
        let a = mk::<W>(true);
        let t = probe::<W>();
        let mut seen_set = 0usize;
        let mut last: Option<usize> = None;
        let mut increasing = true;
        a.iter_set_entries(|x| {
            if x == t {
                seen_set += 1;
            }
            if let Some(l) = last {
                increasing = increasing && l < x;
            }
            last = Some(x);
        });
        let want_seen = if t < a.size && has(&a, t) { 1 } else { 0 };
        assert!(seen_set == want_seen);
        assert!(increasing);
    }
    fn iter_unset_h<const W: usize>() {
        let a = mk::<W>(true);
        let t = probe::<W>();
        let mut seen_unset = 0usize;
        a.iter_unset_entries(|x| {
            if x == t {
                seen_unset += 1;
            }
        });
        let want_unseen = if t < a.size && !has(&a, t) { 1 } else { 0 };
        assert!(seen_unset == want_unseen);
    }
    fn iter_entries_h<const W: usize>() {
        let a = mk::<W>(true);
        let t = probe::<W>();
        let mut seen = 0usize;
        let mut val_ok = true;
        a.iter_entries(|b, x| {
            if x == t {
                seen += 1;
                val_ok = val_ok && b == has(&a, t);
            }
        });
        let want_n = if t < a.size { 1 } else { 0 };
        assert!(seen == want_n && val_ok);
    }
    #[kani::proof]
    #[kani::unwind(35)]
    fn svob_iter_set_w1() {
        iter_set_h::<1>();
    }
    #[kani::proof]
    #[kani::unwind(35)]
    fn svob_iter_set_w2() {
        iter_set_h::<2>();
    }
    #[kani::proof]
    #[kani::unwind(35)]
    fn svob_iter_unset_w1() {
        iter_unset_h::<1>();
    }
    #[kani::proof]
    #[kani::unwind(35)]
    fn svob_iter_unset_w2() {
        iter_unset_h::<2>();
    }
    #[kani::proof]
    #[kani::unwind(35)]
    fn svob_iter_entries_w1() {
        iter_entries_h::<1>();
    }
    #[kani::proof]
    #[kani::unwind(35)]
    fn svob_iter_entries_w2() {
        iter_entries_h::<2>();
    }
    /// num_set = number of members (checked against the closure iterator's count)
    #[kani::proof]
    #[kani::unwind(35)]
    fn svob_num_set_w1() {
        let a = mk::<1>(true);
        let mut n = 0usize;
        let mut i = 0;
        while i < 32 {
            if has(&a, i) {
                n += 1;
            }
            i += 1;
        }
        assert!(a.num_set() == n);
    }

    /// the bit iterator (`iter()`) and the closure iterator agree with the set, in increasing order, and end
    #[kani::proof]
    #[kani::unwind(35)]
    fn svob_iter_next_w1() {
        let a = mk::<1>(true);
        let t = probe::<1>();
        let mut it = a.iter();
        let mut seen = false;
        let mut prev: Option<u32> = None;
        let mut steps = 0;
        while steps < 33 {
            match it.next() {
                Some(x) => {
                    assert!(has(&a, x as usize));
                    if let Some(p) = prev {
                        assert!(p < x);
                    }
                    if x as usize == t {
                        seen = true;
                    }
                    prev = Some(x);
                }
                None => break,
            }
            steps += 1;
        }
        assert!(steps <= 32);
        assert!(seen == has(&a, t));
    }

    #[kani::proof]
    #[kani::unwind(8)]
    fn svob_from_slice() {
        let bits: [bool; 5] = kani::any();
        let n: usize = 5; // concrete length: a symbolic allocation size blows CBMC up
        let v = SimpleVob::from_slice(&bits[..n]);
        let i: usize = kani::any();
        kani::assume(i < 32);
        assert!(v.len() == n);
        assert!(has(&v, i) == (i < n && bits[i]));
    }

    /// write_to / bytes::write_u32s_as_le_bytes: every destination length up to 4W (write_to asserts that), little endian,
    /// bytes beyond the source are untouched
    #[kani::proof]
    #[kani::unwind(12)]
    fn svob_write_to() {
        let a = mk::<2>(false);
        let mut buf = [0xEEu8; 9];
        let n: usize = kani::any();
        kani::assume(n <= 8);
        a.write_to(&mut buf[..n]);
        let j: usize = kani::any();
        kani::assume(j < 9);
        if j < n {
            assert!(buf[j] == (a.data[j / 4] >> (8 * (j % 4))) as u8);
        } else {
            assert!(buf[j] == 0xEE);
        }
    }
    #[kani::proof]
    #[kani::unwind(12)]
    fn bytes_write_le_any_len() {
        let words: [u32; 2] = kani::any();
        let nw: usize = kani::any();
        kani::assume(nw <= 2);
        let mut buf = [0xEEu8; 11];
        let n: usize = kani::any();
        kani::assume(n <= 11);
        crate::bytes::write_u32s_as_le_bytes(&words[..nw], &mut buf[..n]);
        let j: usize = kani::any();
        kani::assume(j < 11);
        if j < n && j < 4 * nw {
            assert!(buf[j] == (words[j / 4] >> (8 * (j % 4))) as u8);
        } else {
            assert!(buf[j] == 0xEE);
        }
    }

    // vacuity guard (must FAIL): negated() must not keep bits above size -- claim the opposite of tail-clear
    #[kani::proof]
    #[kani::unwind(35)]
    fn mustfail_svob_negated_is_plain_not() {
        let a = mk::<1>(false);
        let n = a.negated();
        assert!(n.data[0] == !a.data[0]);
    }
}
