//@@ append toktrie/src/svob.rs
// Unit svob_k (Kani path A): the iterator-adapter functions of SimpleVob that Verus rejects, against the plain-set meaning.
// Harness module appended to the real svob.rs (private fields visible).  Word count W is concrete per harness, every
// word, the size (within the last word) and the probed index are symbolic.  The loops are word-uniform.
#[cfg(kani)]
mod verif_kani_svob {
    use super::*;

    fn mk<const W: usize>(tail_clear: bool) -> SimpleVob {
        let data: [u32; W] = kani::any();
        let size: usize = kani::any();
        kani::assume(size <= 32 * W && (W == 0 || size > 32 * (W - 1)));
        let v = SimpleVob { data: data.to_vec(), size };
        if tail_clear {
            // type invariant of masks: no bit at or above `size`
            let i: usize = kani::any();
            kani::assume(i < 32 * W);
            // (quantified through the symbolic probe below where needed; here enforce it word-wise)
            let last = W - 1;
            let keep = size - 32 * last;
            let m: u32 = if keep >= 32 { !0 } else { (1u32 << keep) - 1 };
            kani::assume(v.data[last] & !m == 0);
        }
        v
    }
    fn has(v: &SimpleVob, i: usize) -> bool {
        i < v.data.len() * 32 && v.data[i / 32] & (1 << (i % 32)) != 0
    }
    fn probe<const W: usize>() -> usize {
        let i: usize = kani::any();
        kani::assume(i < 32 * W + 3);
        i
    }

    fn binop<const W: usize>() {
        let a0 = mk::<W>(false);
        let b = mk::<W>(false);
        let c = mk::<W>(false);
        kani::assume(a0.size == b.size && a0.size == c.size);
        let i = probe::<W>();
        let mut a = a0.clone();
        a.or(&b);
        assert!(has(&a, i) == (has(&a0, i) || has(&b, i)) && a.size == a0.size);
        let mut a = a0.clone();
        a.and(&b);
        assert!(has(&a, i) == (has(&a0, i) && has(&b, i)) && a.size == a0.size);
        let mut a = a0.clone();
        a.sub(&b);
        assert!(has(&a, i) == (has(&a0, i) && !has(&b, i)) && a.size == a0.size);
        let mut a = a0.clone();
        a.or_minus(&b, &c);
        assert!(has(&a, i) == (has(&a0, i) || (has(&b, i) && !has(&c, i))) && a.size == a0.size);
        let mut a = a0.clone();
        a.set_from(&b);
        assert!(has(&a, i) == has(&b, i));
        assert!(a0.and_is_zero(&b) == !{
            let j = first_common(&a0, &b);
            j.is_some()
        });
    }
    fn first_common(a: &SimpleVob, b: &SimpleVob) -> Option<usize> {
        let mut j = 0;
        while j < a.data.len() * 32 {
            if has(a, j) && has(b, j) {
                return Some(j);
            }
            j += 1;
        }
        None
    }
    #[kani::proof]
    #[kani::unwind(35)]
    fn svob_binops_w1() {
        binop::<1>();
    }
    #[kani::proof]
    #[kani::unwind(67)]
    fn svob_binops_w2() {
        binop::<2>();
    }

    /// `or` with a shorter right operand (the slicer ORs a trimmed mask into a full-size one)
    #[kani::proof]
    #[kani::unwind(5)]
    fn svob_or_shorter() {
        let a0 = mk::<2>(false);
        let b = mk::<1>(false);
        let i = probe::<2>();
        let mut a = a0.clone();
        a.or(&b);
        assert!(has(&a, i) == (has(&a0, i) || has(&b, i)));
        assert!(a.size == a0.size && a.data.len() == 2);
    }

    fn unary<const W: usize>() {
        let a = mk::<W>(false);
        let i = probe::<W>();
        let n = a.negated();
        assert!(n.size == a.size && n.data.len() == a.data.len());
        assert!(has(&n, i) == (i < a.size && !has(&a, i))); // complement inside [0, size), nothing above
        let mut s = a.clone();
        let val: bool = kani::any();
        s.set_all(val);
        assert!(has(&s, i) == (val && i < a.size) && s.size == a.size);
        let z = a.is_zero();
        if z {
            assert!(!has(&a, i));
        }
        match a.first_bit_set() {
            Some(k) => {
                assert!(!z && has(&a, k));
                if i < k {
                    assert!(!has(&a, i));
                }
            }
            None => assert!(z),
        }
        let b = mk::<W>(false);
        kani::assume(b.size == a.size);
        match a.first_bit_set_here_and_in(&b) {
            Some(k) => {
                assert!(has(&a, k) && has(&b, k));
                if i < k {
                    assert!(!(has(&a, i) && has(&b, i)));
                }
            }
            None => assert!(!(has(&a, i) && has(&b, i))),
        }
    }
    #[kani::proof]
    #[kani::unwind(35)]
    fn svob_unary_w1() {
        unary::<1>();
    }
    #[kani::proof]
    #[kani::unwind(35)]
    fn svob_unary_w2() {
        unary::<2>();
    }

    fn iterate<const W: usize>() {
        let a = mk::<W>(true);
        let t = probe::<W>();
        let mut seen_set = 0usize;
        let mut n_set = 0usize;
        let mut last: Option<usize> = None;
        let mut increasing = true;
        a.iter_set_entries(|x| {
            if x == t {
                seen_set += 1;
            }
            if let Some(l) = last {
                increasing = increasing && l < x;
            }
            last = Some(x);
            n_set += 1;
        });
        assert!(seen_set == if t < a.size && has(&a, t) { 1 } else { 0 });
        assert!(increasing);
        assert!(n_set == a.num_set());
        let mut seen_unset = 0usize;
        let mut n_unset = 0usize;
        a.iter_unset_entries(|x| {
            if x == t {
                seen_unset += 1;
            }
            n_unset += 1;
        });
        assert!(seen_unset == if t < a.size && !has(&a, t) { 1 } else { 0 });
        assert!(n_set + n_unset == a.size);
        let mut seen = 0usize;
        let mut val_ok = true;
        a.iter_entries(|b, x| {
            if x == t {
                seen += 1;
                val_ok = val_ok && b == has(&a, t);
            }
        });
        assert!(seen == if t < a.size { 1 } else { 0 } && val_ok);
    }
    #[kani::proof]
    #[kani::unwind(35)]
    fn svob_iterate_w1() {
        iterate::<1>();
    }
    #[kani::proof]
    #[kani::unwind(35)]
    fn svob_iterate_w2() {
        iterate::<2>();
    }

    /// the bit iterator (`iter()`) and the closure iterator agree with the set, in increasing order, and end
    #[kani::proof]
    #[kani::unwind(35)]
    fn svob_iter_next_w1() {
        let a = mk::<1>(true);
        let t = probe::<1>();
        let mut it = a.iter();
        let mut seen = false;
        let mut prev: Option<u32> = None;
        let mut steps = 0;
        while steps < 33 {
            match it.next() {
                Some(x) => {
                    assert!(has(&a, x as usize));
                    if let Some(p) = prev {
                        assert!(p < x);
                    }
                    if x as usize == t {
                        seen = true;
                    }
                    prev = Some(x);
                }
                None => break,
            }
            steps += 1;
        }
        assert!(steps <= 32);
        assert!(seen == has(&a, t));
    }

    #[kani::proof]
    #[kani::unwind(8)]
    fn svob_from_slice() {
        let bits: [bool; 5] = kani::any();
        let n: usize = kani::any();
        kani::assume(n <= 5);
        let v = SimpleVob::from_slice(&bits[..n]);
        let i: usize = kani::any();
        kani::assume(i < 32);
        assert!(v.len() == n);
        assert!(has(&v, i) == (i < n && bits[i]));
    }

    /// write_to / bytes::write_u32s_as_le_bytes: every destination length up to 4W (write_to asserts that), little endian,
    /// bytes beyond the source are untouched
    #[kani::proof]
    #[kani::unwind(12)]
    fn svob_write_to() {
        let a = mk::<2>(false);
        let mut buf = [0xEEu8; 9];
        let n: usize = kani::any();
        kani::assume(n <= 8);
        a.write_to(&mut buf[..n]);
        let j: usize = kani::any();
        kani::assume(j < 9);
        if j < n {
            assert!(buf[j] == (a.data[j / 4] >> (8 * (j % 4))) as u8);
        } else {
            assert!(buf[j] == 0xEE);
        }
    }
    #[kani::proof]
    #[kani::unwind(12)]
    fn bytes_write_le_any_len() {
        let words: [u32; 2] = kani::any();
        let nw: usize = kani::any();
        kani::assume(nw <= 2);
        let mut buf = [0xEEu8; 11];
        let n: usize = kani::any();
        kani::assume(n <= 11);
        crate::bytes::write_u32s_as_le_bytes(&words[..nw], &mut buf[..n]);
        let j: usize = kani::any();
        kani::assume(j < 11);
        if j < n && j < 4 * nw {
            assert!(buf[j] == (words[j / 4] >> (8 * (j % 4))) as u8);
        } else {
            assert!(buf[j] == 0xEE);
        }
    }

    // vacuity guard (must FAIL): negated() must not keep bits above size -- claim the opposite of tail-clear
    #[kani::proof]
    #[kani::unwind(35)]
    fn mustfail_svob_negated_is_plain_not() {
        let a = mk::<1>(false);
        let n = a.negated();
        assert!(n.data[0] == !a.data[0]);
    }
}
