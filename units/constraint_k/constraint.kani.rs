//@@ append parser/src/constraint.rs
// Unit constraint_k (Kani path B): the call-order protocol of the sampling-loop interface.  The real text of
// Constraint::{compute_mask_inner, commit_token_inner, res_commit_result, save_progress_and_result, save_temperature} and
// CommitResult::from_step_result is compiled against a shim TokenParser; StepResult/SimpleVob are the real types.
#[cfg(kani)]
mod verif_kani_constraint {
    use super::CommitResult;
    use crate::api::StopReason;
    use toktrie::{SimpleVob, StepResult, TokenId};

    //@@ fnspan parser/src/constraint.rs c_compute_mask_inner Constraint::compute_mask_inner
    //@@ fnspan parser/src/constraint.rs c_commit_token_inner Constraint::commit_token_inner
    //@@ fnspan parser/src/constraint.rs c_res_commit_result Constraint::res_commit_result
    //@@ fnspan parser/src/constraint.rs c_save_progress Constraint::save_progress_and_result
    //@@ fnspan parser/src/constraint.rs c_save_temperature Constraint::save_temperature

    struct ShimError;
    type Result<T> = core::result::Result<T, ShimError>;
    macro_rules! ensure {
        ($c:expr, $($t:tt)*) => {
            if !($c) {
                return Err(ShimError);
            }
        };
    }
    macro_rules! bail {
        ($($t:tt)*) => {
            return Err(ShimError)
        };
    }
    macro_rules! shim_err {
        ($($t:tt)*) => {
            ShimError
        };
    }
    macro_rules! loginfo {
        ($($t:tt)*) => {};
    }

    struct ShimCaps {
        ff_tokens: bool,
    }
    struct ShimInner;
    impl ShimInner {
        fn temperature(&self) -> Option<f32> {
            None
        }
    }
    struct ShimLogger;
    impl ShimLogger {
        fn write_buffer(&mut self, _s: &str) {}
    }
    /// every answer of the token parser is nondeterministic; it counts what the interface asks of it
    struct ShimParser {
        parser: ShimInner,
        inference_caps: ShimCaps,
        logger: ShimLogger,
        stop_reason: StopReason,
        starts: usize,
        consumed: usize,
        check_stops: usize,
        masks: usize,
    }
    impl ShimParser {
        fn num_tokens(&self) -> usize {
            0
        }
        fn start_without_prompt(&mut self) {
            self.starts += 1;
        }
        fn check_stop(&mut self) -> Result<bool> {
            self.check_stops += 1;
            if kani::any() {
                Err(ShimError)
            } else {
                Ok(kani::any())
            }
        }
        fn compute_mask(&mut self) -> Result<SimpleVob> {
            self.masks += 1;
            if kani::any() {
                self.stop_reason = if kani::any() { StopReason::NoExtensionBias } else { StopReason::InternalError };
                Err(ShimError)
            } else {
                Ok(SimpleVob::alloc_with_capacity(8, 9))
            }
        }
        fn stop_reason(&self) -> StopReason {
            self.stop_reason
        }
        fn temperature(&self) -> Option<f32> {
            None
        }
        fn consume_token(&mut self, _t: TokenId) -> Result<usize> {
            self.consumed += 1;
            if kani::any() {
                Err(ShimError)
            } else {
                Ok(if kani::any() { 1 } else { 0 })
            }
        }
        fn consume_ff_tokens(&mut self) -> Result<Vec<TokenId>> {
            if kani::any() {
                Err(ShimError)
            } else {
                Ok(Vec::new())
            }
        }
    }
    struct ShimReporter;
    impl ShimReporter {
        fn get_progress(&mut self, _p: &ShimParser, _r: &StepResult) -> Vec<u32> {
            Vec::new()
        }
    }
    struct Constraint {
        parser: ShimParser,
        log_json_progress: bool,
        temperature: f32,
        reporter: ShimReporter,
        last_res: StepResult,
        started: bool,
        pending_stop: bool,
    }
    impl Constraint {
        /*@@paste c_compute_mask_inner*/
        /*@@paste c_commit_token_inner s/anyhow::anyhow!/shim_err!/*/
        /*@@paste c_res_commit_result*/
        /*@@paste c_save_progress*/
        /*@@paste c_save_temperature*/
    }

    #[derive(Clone, Copy, PartialEq)]
    enum Last {
        Noop,
        Stop,
        Sample,
    }
    fn mk(last: Last) -> Constraint {
        Constraint {
            parser: ShimParser {
                parser: ShimInner,
                inference_caps: ShimCaps { ff_tokens: kani::any() },
                logger: ShimLogger,
                stop_reason: StopReason::NotStopped,
                starts: 0,
                consumed: 0,
                check_stops: 0,
                masks: 0,
            },
            log_json_progress: false,
            temperature: 0.0,
            reporter: ShimReporter,
            last_res: match last {
                Last::Noop => StepResult::noop(),
                Last::Stop => StepResult::stop(),
                Last::Sample => StepResult::sample(SimpleVob::alloc_with_capacity(8, 9), None),
            },
            started: kani::any(),
            pending_stop: false,
        }
    }
    fn any_last() -> Last {
        match kani::any::<u8>() % 3 {
            0 => Last::Noop,
            1 => Last::Stop,
            _ => Last::Sample,
        }
    }

    /// compute_mask: after a stop it is an error and changes nothing; otherwise the result is a stop exactly when the parser says
    /// so (check_stop, or an empty mask reported as NoExtensionBias), else a sampling mask; the parser is started exactly once
    #[kani::proof]
    #[kani::unwind(4)]
    fn compute_mask_protocol() {
        let last = any_last();
        let mut c = mk(last);
        let was_started = c.started;
        let r = c.compute_mask_inner();
        kani::cover!(r.is_ok() && c.last_res.is_stop());
        kani::cover!(r.is_ok() && c.last_res.sample_mask.is_some());
        assert!(c.started && c.parser.starts == if was_started { 0 } else { 1 });
        if last == Last::Stop {
            assert!(r.is_err() && c.last_res.is_stop() && c.parser.check_stops == 0 && c.parser.masks == 0 && !c.pending_stop);
        } else if r.is_ok() {
            assert!(c.parser.check_stops == 1);
            if c.pending_stop {
                assert!(c.last_res.is_stop() && c.parser.masks == 0);
            } else if c.last_res.is_stop() {
                assert!(c.parser.masks == 1 && c.parser.stop_reason == StopReason::NoExtensionBias);
            } else {
                assert!(c.last_res.sample_mask.is_some() && c.parser.masks == 1);
            }
        } else {
            // an error of the parser is passed on; the previous result is kept
            assert!(c.last_res.is_stop() == false || c.parser.masks == 1);
        }
        core::mem::forget(c);
    }

    /// commit_token: after a stop nothing is consumed and STOP is returned; with a sampling mask a token is required and consumed
    /// exactly once; pending_stop is set only if check_stop said so; without a preceding mask it is an error
    #[kani::proof]
    #[kani::unwind(4)]
    fn commit_token_protocol() {
        let last = any_last();
        let mut c = mk(last);
        // commit_token() without a preceding compute_mask() while fast-forward tokens are disabled hits the real
        // `assert!(inference_caps.ff_tokens)`; the public wrapper turns that panic into an error (catch_unwind, not modelled)
        kani::assume(last != Last::Noop || c.parser.inference_caps.ff_tokens);
        let tok: Option<TokenId> = if kani::any() { Some(3) } else { None };
        let r = c.commit_token_inner(tok);
        kani::cover!(matches!(&r, Ok(cr) if cr.stop));
        kani::cover!(matches!(&r, Ok(cr) if !cr.stop) && last == Last::Sample);
        match last {
            Last::Stop => {
                assert!(c.parser.consumed == 0 && c.parser.check_stops == 0);
                assert!(matches!(&r, Ok(cr) if cr.stop && cr.backtrack == 0 && cr.ff_tokens.is_empty()));
            }
            Last::Noop => {
                // an unconditional (here: empty) splice is returned as is, nothing is consumed
                assert!(c.parser.consumed == 0);
                assert!(matches!(&r, Ok(cr) if !cr.stop));
            }
            Last::Sample => {
                if tok.is_none() {
                    assert!(r.is_err() && c.parser.consumed == 0 && c.last_res.sample_mask.is_some());
                } else {
                    assert!(c.parser.consumed == 1);
                    if let Ok(cr) = &r {
                        assert!(!cr.stop && c.parser.check_stops == 1);
                        assert!(c.last_res.sample_mask.is_none() && !c.last_res.is_stop()); // a mask must be computed again before the next commit
                    } else {
                        assert!(!c.pending_stop || c.parser.check_stops == 1);
                    }
                }
            }
        }
        if c.pending_stop {
            assert!(c.parser.check_stops == 1);
        }
        core::mem::forget(c);
        core::mem::forget(r);
    }

    // vacuity guard (must FAIL): claims compute_mask never reports a stop
    #[kani::proof]
    #[kani::unwind(4)]
    fn mustfail_compute_mask_never_stops() {
        let mut c = mk(Last::Noop);
        let r = c.compute_mask_inner();
        assert!(r.is_err() || !c.last_res.is_stop());
        core::mem::forget(c);
    }
}
