// Unit svob_v: toktrie/src/svob.rs SimpleVob index/while code under Verus contracts.
// Environment (assumed std specs, spec vocabulary, bit lemmas) is hand-written; every fn marked //@@ is
// taken verbatim from /repo on each run.
use vstd::prelude::*;
use std::ops::RangeInclusive;
use vstd::std_specs::bits::*;
verus! {

global size_of usize == 8; // assumption: 64-bit target

pub type TokenId = u32;
//@@ const toktrie/src/svob.rs BITS

//@@ struct toktrie/src/svob.rs SimpleVob

// ---- assumed std specs (trusted) ----
pub uninterp spec fn ri_start<Idx>(r: RangeInclusive<Idx>) -> Idx;
pub uninterp spec fn ri_end<Idx>(r: RangeInclusive<Idx>) -> Idx;
pub assume_specification<Idx> [std::ops::RangeInclusive::<Idx>::end] (r: &RangeInclusive<Idx>) -> (e: &Idx)
    ensures *e == ri_end(*r);
pub assume_specification<Idx> [std::ops::RangeInclusive::<Idx>::start] (r: &RangeInclusive<Idx>) -> (e: &Idx)
    ensures *e == ri_start(*r);

//@@ include common/svob_core.vrs

pub proof fn lemma_masks(s: u32, e: u32, c: u32)
    requires s < 32, e < 32, c < 32,
    ensures bit(!0u32 << s, c) == (c >= s),
            bit(!0u32 >> ((31 - e) as u32), c) == (c <= e),
            bit(!0u32, c),
{
    assert(((!0u32 << s) & (1u32 << c) != 0) == (c >= s)) by (bit_vector) requires s < 32, c < 32;
    let k: u32 = (31 - e) as u32;
    assert(((!0u32 >> k) & (1u32 << c) != 0) == (c <= 31 - k)) by (bit_vector) requires k < 32, c < 32;
    assert((!0u32) & (1u32 << c) != 0) by (bit_vector) requires c < 32;
}
pub proof fn lemma_or_and(a: u32, b: u32, c: u32)
    requires c < 32,
    ensures bit(a | b, c) == (bit(a, c) || bit(b, c)), bit(a & b, c) == (bit(a, c) && bit(b, c)),
{
    assert(((a | b) & (1u32 << c) != 0) == ((a & (1u32 << c) != 0) || (b & (1u32 << c) != 0))) by (bit_vector) requires c < 32;
    assert(((a & b) & (1u32 << c) != 0) == ((a & (1u32 << c) != 0) && (b & (1u32 << c) != 0))) by (bit_vector) requires c < 32;
}
/// d = w >> off, t = trailing zeros of d (d != 0): lowest set bit of w at or above off is off+t
pub proof fn lemma_shift_tz(w: u32, off: u32, t: u32, c: u32)
    requires off < 32, t < 32, c < 32,
        ((w >> off) >> t) & 1u32 == 1u32,
        forall|j: u32| j < t ==> #[trigger] ((w >> off) >> j) & 1u32 == 0u32,
    ensures off + t < 32, bit(w, (off + t) as u32), (off <= c < off + t) ==> !bit(w, c),
{
    assert(off + t < 32 && (w & (1u32 << ((off + t) as u32)) != 0)) by (bit_vector)
        requires off < 32, t < 32, ((w >> off) >> t) & 1u32 == 1u32;
    if off <= c < off + t {
        let j: u32 = (c - off) as u32;
        assert(((w >> off) >> j) & 1u32 == 0u32);
        assert(w & (1u32 << c) == 0) by (bit_vector)
            requires off < 32, c < 32, c >= off, j == c - off, ((w >> off) >> j) & 1u32 == 0u32;
    }
}
pub proof fn lemma_shift_zero(w: u32, off: u32, c: u32)
    requires off <= c < 32, (w >> off) == 0,
    ensures !bit(w, c),
{
    assert(w & (1u32 << c) == 0) by (bit_vector) requires off <= c, c < 32, (w >> off) == 0;
}

impl SimpleVob {
//@@ fn toktrie/src/svob.rs SimpleVob::trim_trailing_zeros
//@ spec
    requires old(self).nwords() * 32 <= usize::MAX,
    ensures forall|j: int| final(self).has(j) == old(self).has(j),
        final(self).nwords() <= old(self).nwords(),
        final(self).nwords() == 0 || final(self).data@[final(self).nwords() - 1] != 0,
        final(self).nwords() == old(self).nwords() ==> final(self).size == old(self).size,
        final(self).nwords() < old(self).nwords() ==> final(self).size == 32 * final(self).nwords(),
        final(self).data@ == old(self).data@.take(final(self).nwords()),
//@ loop 1
    invariant idx <= self.data@.len(), self.data@ == old(self).data@,
        forall|k: int| idx <= k < self.data@.len() ==> self.data@[k] == 0,
    decreases idx,
//@ before if self.data.len() != idx {
    proof {
        assert forall|c: u32| c < 32 implies !bit(0u32, c) by {
            assert(0u32 & (1u32 << c) == 0) by (bit_vector);
        }
    }
//@ end

//@@ fn toktrie/src/svob.rs SimpleVob::allow_range
//@ spec
    requires old(self).wf(), old(self).size <= u32::MAX, ri_end(range) < old(self).size,
    ensures final(self).size == old(self).size, final(self).nwords() == old(self).nwords(),
        forall|j: int| final(self).has(j) == (old(self).has(j) || ri_start(range) <= j <= ri_end(range)),
//@ before let start_word = start / BITS;
    let ghost d0 = self.data@;
//@ after let end_mask = !0u32 >> (BITS - 1 - end_bit);
    proof {
        assert forall|c: u32| c < 32 implies
            bit(start_mask, c) == (c >= start % 32) && bit(end_mask, c) == (c <= end_bit) && bit(!0u32, c) by {
            lemma_masks((start % 32) as u32, end_bit as u32, c);
        }
    }
//@ after self.data[start_word] |= mask;
    proof {
        assert forall|j: int| self.has(j) == (old(self).has(j) || start <= j <= end) by {
            if 0 <= j < 32 * self.nwords() && j / 32 == start_word {
                let c = (j % 32) as u32;
                lemma_or_and(start_mask, end_mask, c);
                lemma_or_and(d0[start_word as int], mask, c);
            }
        }
    }
//@ after self.data[start_word] |= start_mask;
    let ghost d1 = self.data@;
//@ loop 1
    invariant
        start_word < end_word < self.nwords(), self.data@.len() == d1.len(), self.size == old(self).size,
        forall|k: int| 0 <= k < d1.len() && !(start_word < k < w) ==> self.data@[k] == d1[k],
        forall|k: int| start_word < k < w ==> self.data@[k] == !0u32,
//@ before self.data[end_word] |= end_mask;
    let ghost d2 = self.data@;
    assert(forall|k: int| start_word < k < end_word ==> d2[k] == !0u32);
    assert(forall|k: int| 0 <= k < d1.len() && !(start_word < k < end_word) ==> d2[k] == d1[k]);
    assert(forall|k: int| 0 <= k < d1.len() && k != start_word ==> d1[k] == d0[k]);
//@ after self.data[end_word] |= end_mask;
    proof {
        assert forall|j: int| self.has(j) == (old(self).has(j) || start <= j <= end) by {
            if 0 <= j < 32 * self.nwords() {
                let c = (j % 32) as u32;
                let k = j / 32;
                if k == start_word {
                    lemma_or_and(d0[k], start_mask, c);
                    assert(self.data@[k] == d0[k] | start_mask);
                    assert(bit(start_mask, c) == (c >= start % 32));
                    assert(j <= end);
                    assert((j >= start) == (c >= start % 32));
                } else if k == end_word {
                    lemma_or_and(d0[k], end_mask, c);
                    assert(self.data@[k] == d0[k] | end_mask);
                    assert(bit(end_mask, c) == (c <= end_bit));
                    assert(j >= start);
                    assert((j <= end) == (c <= end % 32));
                } else if start_word < k < end_word {
                    assert(self.data@[k] == !0u32);
                    lemma_masks(0, 0, c);
                    assert(start <= j <= end);
                } else {
                    assert(self.data@[k] == d0[k]);
                    assert(!(start <= j <= end));
                }
            } else {
                assert(!(start <= j <= end));
            }
        }
    }
//@ end
}

//@@ struct toktrie/src/svob.rs SimpleVobIter

// R5: `Iterator::next` of `impl Iterator for SimpleVobIter` is checked as an inherent method (Verus cannot attach
// a contract to an impl of the external trait `Iterator`); `Self::Item` is spelled `u32` (= `type Item = u32`).
impl SimpleVobIter<'_> {
//@@ fn toktrie/src/svob.rs Iterator@SimpleVobIter::next
//@ sigrewrite R5 :: Option<Self::Item> ==> Option<u32>
//@ ret r
//@ spec
    requires old(self).vob.nwords() * 32 <= usize::MAX, old(self).vob.nwords() * 32 <= u32::MAX,
    ensures final(self).vob == old(self).vob,
        match r {
            Some(i) => old(self).idx <= i && old(self).vob.has(i as int) && final(self).idx == i + 1
                && forall|k: int| old(self).idx <= k < i ==> !old(self).vob.has(k),
            None => forall|k: int| old(self).idx <= k ==> !old(self).vob.has(k),
        },
//@ loop 1
    invariant
        data == &self.vob.data, self.vob == old(self).vob, self.idx == old(self).idx,
        bitoff < 32, dataoff * 32 + bitoff >= self.idx,
        self.vob.nwords() * 32 <= usize::MAX, self.vob.nwords() * 32 <= u32::MAX,
        forall|k: int| self.idx <= k < dataoff * 32 + bitoff ==> !self.vob.has(k),
    decreases data@.len() - dataoff,
//@ after let d = data[dataoff] >> bitoff;
    proof {
        if d != 0 {
            axiom_u32_trailing_zeros(d);
            let t = d.trailing_zeros();
            let w0 = data@[dataoff as int];
            lemma_shift_tz(w0, bitoff as u32, t, 0);
            assert forall|k: int| self.idx <= k < dataoff * 32 + bitoff + t implies !self.vob.has(k) by {
                if k >= dataoff * 32 + bitoff {
                    let c = (k % 32) as u32;
                    assert(k / 32 == dataoff);
                    lemma_shift_tz(w0, bitoff as u32, t, c);
                }
            }
        } else {
            assert forall|k: int| self.idx <= k < (dataoff + 1) * 32 implies !self.vob.has(k) by {
                if k >= dataoff * 32 + bitoff {
                    assert(k / 32 == dataoff);
                    lemma_shift_zero(data@[dataoff as int], bitoff as u32, (k % 32) as u32);
                }
            }
        }
    }
//@ end
}


// vacuity guards (must FAIL)
pub fn must_fail_set_is_noop(v: &mut SimpleVob, i: usize)
    requires old(v).wf(), i < old(v).size,
{
    let ghost before = v.has(i as int);
    v.set(i, true);
    assert(v.has(i as int) == before);
}
pub proof fn must_fail_wf_contradictory(v: SimpleVob)
    requires v.wf(), v.size > 40,
{
    assert(false);
}

} // verus!
fn main() {}
