// Unit mask_v: TokenParser::compute_mask_inner (parser/src/tokenparser.rs), whole function on a shim struct: which set becomes the
// token mask - the singleton of the first fast-forward token while grammar-forced text is being emitted through a canonical
// tokenizer, otherwise the bias set for the pending token prefix plus the EOS ids exactly when the engine is accepting - and when
// the call stops the engine instead (not initialised, parser error, empty mask).
use vstd::prelude::*;

// R3: logging macro defined empty
macro_rules! infoln { ($($t:tt)*) => {}; }

verus! {

global size_of usize == 8;

pub type TokenId = u32;
//@@ const toktrie/src/toktree.rs INVALID_TOKEN

pub struct VErr {}
pub type Result<T> = core::result::Result<T, VErr>;
pub struct ParserError {}

#[derive(PartialEq, Eq, Clone, Copy, Structural)]
pub enum StopReason { NotStopped, EndOfSentence, NoExtension, NoExtensionBias, MaxTokensTotal, InternalError, ParserTooComplex, Other }

pub struct ParserStats {}
impl ParserStats {
    pub fn default() -> ParserStats { ParserStats {} }
}

/// stands for SimpleVob as a set of token ids (the real bit-vector operations are under contract in svob_v / svob_k)
pub struct SimpleVob { pub ghost s: Set<int> }
impl SimpleVob {
    pub open spec fn is_empty_set(&self) -> bool { forall|i: int| !self.s.contains(i) }
    #[verifier::external_body]
    pub fn allow_token(&mut self, t: TokenId)
        ensures final(self).s == old(self).s.insert(t as int),
    { unimplemented!() }
    #[verifier::external_body]
    pub fn is_zero(&self) -> (r: bool)
        ensures r == self.is_empty_set(),
    { unimplemented!() }
}
pub struct ShimTrie {}
impl ShimTrie {
    /// TokTrie::singleton_token_set
    #[verifier::external_body]
    pub fn singleton_token_set(&self, t: TokenId) -> (r: SimpleVob)
        ensures r.s == Set::<int>::empty().insert(t as int),
    { unimplemented!() }
}
/// `raw_accepting`: the Earley parser's own answer, which ignores pending forced bytes - NOT what decides whether EOS is allowed
pub struct ShimParser { pub ghost err: bool, pub ghost raw_accepting: bool }
impl ShimParser {
    #[verifier::external_body]
    pub fn get_error(&self) -> (r: Option<ParserError>)
        ensures r is Some == self.err,
    { unimplemented!() }
    #[verifier::external_body]
    pub fn is_accepting(&mut self) -> (r: bool)
        ensures r == old(self).raw_accepting, *final(self) == *old(self),
    { unimplemented!() }
}

/// the bias set the parser computes for a pending token prefix in the current state (ParserState::compute_bias: walk_v, special_k)
pub uninterp spec fn bias_of(prefix: Seq<u8>) -> Set<int>;

pub struct TokenParser {
    pub trie: ShimTrie,
    pub parser: ShimParser,
    pub ff_tokens_cache: Option<(Vec<TokenId>, Vec<u8>)>,
    pub eos_tokens: Vec<TokenId>,
    pub last_step_stats: ParserStats,
    pub stop_reason: StopReason,
    // ghost description of the current state
    pub ghost initialized: bool,
    pub ghost can_force: bool,
    /// what ff_tokens() computes in this state: (fast-forward tokens, bytes left over as a token prefix)
    pub ghost ff: (Seq<TokenId>, Seq<u8>),
    /// forced bytes when the tokenizer is not canonical (compute_ff_bytes_to)
    pub ghost ff_bytes: Seq<u8>,
    pub ghost tp_accepting: bool,
}

/// R28: `self.ff_tokens_cache.take()`
#[verifier::external_body]
pub fn take_cache(c: &mut Option<(Vec<TokenId>, Vec<u8>)>) -> (r: Option<(Vec<TokenId>, Vec<u8>)>)
    ensures r == *old(c), *final(c) is None,
{ unimplemented!() }

pub open spec fn eos_set(eos: Seq<TokenId>, n: int) -> Set<int>
    decreases n
{
    if n <= 0 { Set::empty() } else if eos[n - 1] != INVALID_TOKEN { eos_set(eos, n - 1).insert(eos[n - 1] as int) } else { eos_set(eos, n - 1) }
}

impl TokenParser {
    /// a cached fast-forward result is the one ff_tokens() would compute now (clear_caches runs on every commit and rollback:
    /// units apply_v, tprollback_v)
    pub open spec fn cache_valid(&self) -> bool {
        match self.ff_tokens_cache { Some(c) => c.0@ == self.ff.0 && c.1@ == self.ff.1, None => true }
    }
    pub fn tok_trie(&self) -> (r: &ShimTrie) { &self.trie }
    #[verifier::external_body]
    pub fn check_initialized(&self, lbl: &str) -> (r: Result<()>)
        ensures r is Ok == self.initialized,
    { unimplemented!() }
    #[verifier::external_body]
    pub fn can_force_bytes(&self) -> (r: bool) ensures r == self.can_force, { unimplemented!() }
    #[verifier::external_body]
    pub fn ff_tokens(&mut self) -> (r: (Vec<TokenId>, Vec<u8>))
        ensures r.0@ == old(self).ff.0, r.1@ == old(self).ff.1, final(self).frame(old(self)), final(self).ff_tokens_cache == old(self).ff_tokens_cache,
            final(self).stop_reason == old(self).stop_reason,
    { unimplemented!() }
    #[verifier::external_body]
    pub fn compute_ff_bytes_to(&mut self, trg: &mut Vec<u8>)
        ensures final(trg)@ == old(trg)@ + old(self).ff_bytes, final(self).frame(old(self)), final(self).ff_tokens_cache == old(self).ff_tokens_cache,
            final(self).stop_reason == old(self).stop_reason,
    { unimplemented!() }
    #[verifier::external_body]
    pub fn compute_bias(&mut self, token_prefix: &[u8]) -> (r: SimpleVob)
        ensures r.s == bias_of(token_prefix@), final(self).frame(old(self)), final(self).ff_tokens_cache == old(self).ff_tokens_cache,
            final(self).stop_reason == old(self).stop_reason,
    { unimplemented!() }
    #[verifier::external_body]
    pub fn is_accepting(&mut self) -> (r: bool)
        ensures r == old(self).tp_accepting, final(self).frame(old(self)), final(self).ff_tokens_cache == old(self).ff_tokens_cache,
            final(self).stop_reason == old(self).stop_reason,
    { unimplemented!() }
    #[verifier::external_body]
    pub fn log_final(&mut self, token_prefix: &[u8], allowed_tokens: &SimpleVob)
        ensures *final(self) == *old(self),
    { unimplemented!() }
    #[verifier::external_body]
    pub fn stop(&mut self, warn: &str, reason: StopReason) -> (e: VErr)
        ensures final(self).stop_reason == reason, final(self).frame(old(self)), final(self).ff_tokens_cache == old(self).ff_tokens_cache,
    { unimplemented!() }
    #[verifier::external_body]
    pub fn stop_for_parser_error(&mut self, pref: &str, err: ParserError) -> (e: VErr)
        ensures final(self).stop_reason != StopReason::NotStopped, final(self).frame(old(self)), final(self).ff_tokens_cache == old(self).ff_tokens_cache,
    { unimplemented!() }
    /// the ghost description of the state and the EOS list are not touched
    pub open spec fn frame(&self, o: &TokenParser) -> bool {
        self.initialized == o.initialized && self.can_force == o.can_force && self.ff == o.ff && self.ff_bytes == o.ff_bytes
            && self.tp_accepting == o.tp_accepting && self.eos_tokens == o.eos_tokens && self.parser == o.parser
    }

//@@ fn parser/src/tokenparser.rs TokenParser::compute_mask_inner
//@ ret res
//@ rewrite R28 :: self .ff_tokens_cache .take() .unwrap_or_else(|| self.ff_tokens()) ==> match take_cache(&mut self.ff_tokens_cache) { Some(v) => v, None => self.ff_tokens() }
//@ rewrite R7 :: for &eos in &self.eos_tokens { ==> for verif_i in 0..self.eos_tokens.len() { let eos = self.eos_tokens[verif_i];
//@ spec
    requires old(self).cache_valid(),
    ensures
        // not initialised / already stopped: an error, and nothing is computed
        !old(self).initialized ==> res is Err,
        // grammar-forced text through a canonical tokenizer: the mask narrows to the first fast-forward token
        (res is Ok && old(self).can_force && old(self).ff.0.len() > 0) ==>
            res->Ok_0.s == Set::<int>::empty().insert(old(self).ff.0[0] as int),
        // otherwise: the bias set for the pending token prefix, plus the EOS ids exactly when the engine reports accepting
        (res is Ok && !(old(self).can_force && old(self).ff.0.len() > 0)) ==> {
            let prefix = if old(self).can_force { old(self).ff.1 } else { old(self).ff_bytes };
            res->Ok_0.s == (if old(self).tp_accepting { bias_of(prefix).union(eos_set(old(self).eos_tokens@, old(self).eos_tokens@.len() as int)) } else { bias_of(prefix) })
        },
        // a successful call never returns an empty mask, and a parser error is never papered over
        res is Ok ==> !res->Ok_0.is_empty_set(),
        (res is Ok && !(old(self).can_force && old(self).ff.0.len() > 0)) ==> !old(self).parser.err,
        // failing for a reason other than "not initialised" stops the engine
        (res is Err && old(self).initialized) ==> final(self).stop_reason != StopReason::NotStopped,
        // the fast-forward memo is consumed whenever forcing is possible (no stale memo survives a mask computation)
        (old(self).initialized && old(self).can_force) ==> final(self).ff_tokens_cache is None,
        final(self).frame(old(self)),
//@ loop 1
    invariant
        self.frame(old(self)), self.ff_tokens_cache == ff_c, self.stop_reason == sr_c,
        allowed_tokens.s == bias0.union(eos_set(self.eos_tokens@, verif_i as int)),
//@ before return Ok(mask);
    proof { assert(mask.s.contains(t as int)); assert(!mask.is_empty_set()); }
//@ after return Err(self.stop_for_parser_error("", s)); }
    let ghost bias0 = allowed_tokens.s;
    let ghost ff_c = self.ff_tokens_cache;
    let ghost sr_c = self.stop_reason;
    proof { assert(bias0.union(eos_set(self.eos_tokens@, 0)) =~= bias0); }
//@ after if eos != INVALID_TOKEN { allowed_tokens.allow_token(eos); }
    proof {
        assert(bias0.union(eos_set(self.eos_tokens@, verif_i as int)).insert(eos as int) =~= bias0.union(eos_set(self.eos_tokens@, verif_i as int).insert(eos as int)));
    }
//@ end
}

// vacuity guards (must FAIL)
pub fn must_fail_mask_never_ok(tp: &mut TokenParser)
    requires old(tp).cache_valid(),
{
    let r = tp.compute_mask_inner();
    assert(r is Err);
}
pub fn must_fail_eos_always_in_mask(tp: &mut TokenParser)
    requires old(tp).cache_valid(), old(tp).eos_tokens@.len() == 1, old(tp).eos_tokens@[0] == 7, !old(tp).can_force,
{
    let r = tp.compute_mask_inner();
    match r { Ok(m) => { assert(m.s.contains(7)); }, Err(_) => {} }
}

} // verus!
fn main() {}
