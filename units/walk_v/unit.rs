// Unit walk_v: the branch-free trie walk of toktrie/src/toktree.rs (add_bias_inner and friends) against the naive
// per-token definition.  Real bodies are spliced from /repo on every run; TrieWf / RecModel / path are spec vocabulary.
use vstd::prelude::*;
verus! {

global size_of usize == 8; // assumption: 64-bit target

pub type TokenId = u32;
//@@ const toktrie/src/svob.rs BITS
//@@ struct toktrie/src/svob.rs SimpleVob
//@@ include common/svob_core.vrs

//@@ include common/trienode.vrs
//@@ struct toktrie/src/toktree.rs TokRxInfo derive=Clone,Copy
//@@ struct toktrie/src/toktree.rs TokTrie fields=info,nodes

//@@ include common/triewf.vrs

/// bytes on the path from the root to node j
pub open spec fn path(nodes: Seq<TrieNode>, d: Seq<nat>, j: int) -> Seq<u8>
    decreases j
{
    if j <= 0 { Seq::empty() } else {
        path(nodes, d, j - 1).take(d[j] - 1).push(nbyte(nodes[j]))
    }
}

pub proof fn lemma_path_len(nodes: Seq<TrieNode>, d: Seq<nat>, vocab: u32, j: int)
    requires trie_wf(nodes, d, vocab), 0 <= j < nodes.len(),
    ensures path(nodes, d, j).len() == d[j],
    decreases j
{
    if j > 0 {
        lemma_path_len(nodes, d, vocab, j - 1);
        assert(step_ok(d, j));
    }
}

pub proof fn lemma_depth_le_index(nodes: Seq<TrieNode>, d: Seq<nat>, vocab: u32, j: int)
    requires trie_wf(nodes, d, vocab), 0 <= j < nodes.len(),
    ensures d[j] <= j,
    decreases j
{
    if j > 0 {
        lemma_depth_le_index(nodes, d, vocab, j - 1);
        assert(step_ok(d, j));
    }
}

pub proof fn lemma_desc_path(nodes: Seq<TrieNode>, d: Seq<nat>, vocab: u32, p: int, k: int)
    requires trie_wf(nodes, d, vocab), 0 <= p < nodes.len(), p <= k < p + nsize(nodes[p]),
    ensures path(nodes, d, k).len() == d[k], d[k] >= d[p], path(nodes, d, k).take(d[p] as int) == path(nodes, d, p),
    decreases k - p
{
    assert(size_ok(nodes, p));
    lemma_path_len(nodes, d, vocab, k);
    lemma_path_len(nodes, d, vocab, p);
    if k == p {
        assert(path(nodes, d, p).take(d[p] as int) == path(nodes, d, p));
    } else {
        lemma_desc_path(nodes, d, vocab, p, k - 1);
        lemma_path_len(nodes, d, vocab, k - 1);
        let a = path(nodes, d, k - 1);
        assert(deeper(nodes, d, p, k));
        assert(step_ok(d, k));
        assert(d[k] > d[p]);
        assert(path(nodes, d, k) == a.take(d[k] - 1).push(nbyte(nodes[k])));
        assert(a.take(d[k] - 1).push(nbyte(nodes[k])).take(d[p] as int) == a.take(d[p] as int));
    }
}

pub proof fn lemma_nested(nodes: Seq<TrieNode>, d: Seq<nat>, vocab: u32, j: int, k: int)
    requires trie_wf(nodes, d, vocab), 0 <= j < nodes.len(), j < k < j + nsize(nodes[j]),
    ensures k + nsize(nodes[k]) <= j + nsize(nodes[j]),
{
    assert(size_ok(nodes, j));
    assert(size_ok(nodes, k));
    let e = j + nsize(nodes[j]);
    if k + nsize(nodes[k]) > e {
        assert(e < nodes.len());
        assert(deeper(nodes, d, k, e));
        assert(deeper(nodes, d, j, k));
        assert(next_ok(nodes, d, j));
    }
}

//@@ include common/recmodel.vrs

// ---------------------------------------------------------------- the naive definition
pub open spec fn tokv(n: TrieNode, vocab: u32) -> u32 { if ntok(n) == NO_TOKEN { vocab } else { ntok(n) } }

pub open spec fn rel(nodes: Seq<TrieNode>, d: Seq<nat>, off: int, j: int) -> Seq<u8> {
    path(nodes, d, j).skip(d[off] as int)
}

/// no path below `off` is longer than the recognizer's remaining stack capacity (for StackRecognizer: tokens of at most
/// STACK_CAPACITY - 1 = 299 bytes; for the parser's own recognizer the capacity is unbounded)
pub open spec fn d_fits(d: Seq<nat>, off: int, room: int, j: int) -> bool { d[j] - d[off] <= room }
pub open spec fn depth_fits(nodes: Seq<TrieNode>, d: Seq<nat>, off: int, room: int) -> bool {
    forall|j: int| off < j < off + nsize(nodes[off]) ==> #[trigger] d_fits(d, off, room, j)
}

/// token id t is carried by a node j in (off, p) all of whose path bytes below `off` are accepted one after another from s0
pub open spec fn acc<R: Recognizer + ?Sized>(nodes: Seq<TrieNode>, d: Seq<nat>, r: &R, s0: Seq<u8>, off: int, p: int, vocab: u32, t: int) -> bool {
    exists|j: int| off < j < p && #[trigger] tokv(nodes[j], vocab) == t && r.ok(s0 + rel(nodes, d, off, j))
}

/// same as `acc`, over the acceptance function that `trie_started` will install
pub open spec fn accs<R: Recognizer + ?Sized>(nodes: Seq<TrieNode>, d: Seq<nat>, r: &R, s0: Seq<u8>, off: int, p: int, vocab: u32, t: int) -> bool {
    exists|j: int| off < j < p && #[trigger] tokv(nodes[j], vocab) == t && r.started_ok(s0 + rel(nodes, d, off, j))
}

/// some node in (off, p) carries a real token and all its path bytes below `off` are accepted from s0
pub open spec fn acc_real<R: Recognizer + ?Sized>(nodes: Seq<TrieNode>, d: Seq<nat>, r: &R, s0: Seq<u8>, off: int, p: int) -> bool {
    exists|j: int| off < j < p && #[trigger] ntok(nodes[j]) != NO_TOKEN && r.ok(s0 + rel(nodes, d, off, j))
}
pub open spec fn accs_real<R: Recognizer + ?Sized>(nodes: Seq<TrieNode>, d: Seq<nat>, r: &R, s0: Seq<u8>, off: int, p: int) -> bool {
    exists|j: int| off < j < p && #[trigger] ntok(nodes[j]) != NO_TOKEN && r.started_ok(s0 + rel(nodes, d, off, j))
}
pub proof fn lemma_accreal_accs<R: Recognizer + ?Sized>(nodes: Seq<TrieNode>, d: Seq<nat>, r1: &R, r0: &R, s0: Seq<u8>, off: int, p: int)
    requires forall|s: Seq<u8>| r1.ok(s) == r0.started_ok(s),
    ensures acc_real(nodes, d, r1, s0, off, p) == accs_real(nodes, d, r0, s0, off, p),
{
    if acc_real(nodes, d, r1, s0, off, p) {
        let j = choose|j: int| off < j < p && #[trigger] ntok(nodes[j]) != NO_TOKEN && r1.ok(s0 + rel(nodes, d, off, j));
        assert(off < j < p && ntok(nodes[j]) != NO_TOKEN && r0.started_ok(s0 + rel(nodes, d, off, j)));
    }
    if accs_real(nodes, d, r0, s0, off, p) {
        let j = choose|j: int| off < j < p && #[trigger] ntok(nodes[j]) != NO_TOKEN && r0.started_ok(s0 + rel(nodes, d, off, j));
        assert(off < j < p && ntok(nodes[j]) != NO_TOKEN && r1.ok(s0 + rel(nodes, d, off, j)));
    }
}

pub proof fn lemma_acc_accs<R: Recognizer + ?Sized>(nodes: Seq<TrieNode>, d: Seq<nat>, r1: &R, r0: &R, s0: Seq<u8>, off: int, p: int, vocab: u32, t: int)
    requires forall|s: Seq<u8>| r1.ok(s) == r0.started_ok(s),
    ensures acc(nodes, d, r1, s0, off, p, vocab, t) == accs(nodes, d, r0, s0, off, p, vocab, t),
{
    if acc(nodes, d, r1, s0, off, p, vocab, t) {
        let j = choose|j: int| off < j < p && #[trigger] tokv(nodes[j], vocab) == t && r1.ok(s0 + rel(nodes, d, off, j));
        assert(off < j < p && tokv(nodes[j], vocab) == t && r0.started_ok(s0 + rel(nodes, d, off, j)));
    }
    if accs(nodes, d, r0, s0, off, p, vocab, t) {
        let j = choose|j: int| off < j < p && #[trigger] tokv(nodes[j], vocab) == t && r0.started_ok(s0 + rel(nodes, d, off, j));
        assert(off < j < p && tokv(nodes[j], vocab) == t && r1.ok(s0 + rel(nodes, d, off, j)));
    }
}

pub proof fn lemma_is_prefix_closed(a: Seq<u8>, b: u8, c: Seq<u8>)
    requires TokTrie::is_prefix(a.push(b), c),
    ensures TokTrie::is_prefix(a, c),
{
    assert(c.take(a.len() as int) =~= c.take(a.len() as int + 1).take(a.len() as int));
    assert(a.push(b).take(a.len() as int) =~= a);
}

impl TokTrie {
    pub open spec fn vocab(&self) -> u32 { self.info.vocab_size }
    pub open spec fn wf(&self) -> bool { (exists|d: Seq<nat>| trie_wf(self.nodes@, d, self.vocab())) && self.nodes@.len() <= usize::MAX }
    pub open spec fn depths(&self) -> Seq<nat> { choose|d: Seq<nat>| trie_wf(self.nodes@, d, self.vocab()) }
    pub uninterp spec fn spec_node_offset(&self, n: &TrieNode) -> int;

//@@ fn toktrie/src/toktree.rs TokTrie::vocab_size
//@ ret r
//@ spec
    ensures r == self.vocab(),
//@ end

    /// ASSUMED: pointer subtraction `(n - root) / size_of::<TrieNode>()`; n is a reference into self.nodes
    #[verifier::external_body]
    fn node_offset(&self, n: &TrieNode) -> (off: usize)
        ensures off == self.spec_node_offset(n), off < self.nodes@.len(), self.nodes@[off as int] == *n,
    {
        unimplemented!()
    }
//@@ sigcheck toktrie/src/toktree.rs TokTrie::node_offset :: fn node_offset(&self, n: &TrieNode) -> usize

//@@ fn toktrie/src/toktree.rs TokTrie::add_bias_inner
//@ ret res
//@ rewrite R1 :: nodes.get_unchecked(p) ==> &nodes[p]
//@ rewrite R8 :: let mut next_pop = 0; ==> let mut next_pop: usize = 0;
//@ rewrite R8 :: let mut num_skip = 0; ==> let mut num_skip: usize = 0;
//@ spec
    requires
        self.wf(),
        old(r).rinv(),
        prefix_closed(old(r)),
        old(r).ok(old(r).stack()),
        depth_fits(self.nodes@, self.depths(), self.spec_node_offset(n), old(r).cap() - old(r).stack().len()),
        // room for the fake token at index vocab_size (alloc_token_set allocates vocab_size + 1 bits)
        (self.vocab() >> 5) < old(toks).nwords(), old(toks).nwords() * 32 <= usize::MAX,
    ensures
        final(toks).size == old(toks).size, final(toks).nwords() == old(toks).nwords(),
        // the set written = exactly the tokens whose bytes the recognizer accepts one after another (fake id = vocab for nodes without token)
        forall|t: int| final(toks).has(t) == (old(toks).has(t)
            || acc(self.nodes@, self.depths(), old(r), old(r).stack(), self.spec_node_offset(n), self.spec_node_offset(n) + nsize(*n), self.vocab(), t)),
        // the recognizer is the same acceptor, and popping next_pop leaves the stack where the walk found it (for the root)
        forall|s: Seq<u8>| final(r).ok(s) == old(r).ok(s),
        final(r).rinv(), final(r).cap() == old(r).cap(),
        self.spec_node_offset(n) == 0 ==> res.0 <= final(r).stack().len(),
        self.spec_node_offset(n) == 0 ==> final(r).stack().take(final(r).stack().len() - res.0) == old(r).stack(),
        res.1 <= nsize(*n),
//@ before let defl_tok = self.vocab_size() as u32;
    let ghost d = self.depths();
    let ghost nd = self.nodes@;
    let ghost vocab = self.vocab();
    let ghost s0 = r.stack();
    let ghost t0 = *toks;
//@ after let total_nodes = n.subtree_size();
    proof { assert(trie_wf(nd, d, vocab)); assert(size_ok(nd, off as int)); }
//@ after let mut num_skip: usize = 0;
    proof {
        if p < endp {
            assert(deeper(nd, d, off as int, p as int));
            assert(step_ok(d, p as int));
            lemma_path_len(nd, d, vocab, off as int);
            lemma_path_len(nd, d, vocab, p as int);
            let pp = path(nd, d, p as int).take(d[p as int] - 1);
            assert(pp.len() == d[off as int]);
            assert(pp.skip(d[off as int] as int) =~= Seq::<u8>::empty());
            assert(r.stack().take(r.stack().len() - 0) =~= s0 + pp.skip(d[off as int] as int));
        }
        assert(r.stack().take(r.stack().len() - 0) =~= s0);
        assert forall|t: int| !acc(nd, d, &*r, s0, off as int, p as int, vocab, t) by { }
    }
//@ loop 1
        invariant
            trie_wf(nd, d, vocab), nd == self.nodes@, vocab == self.vocab(), d == self.depths(),
            off < nd.len(), endp == off + nsize(nd[off as int]), endp <= nd.len(), total_nodes == nsize(nd[off as int]),
            nodes@ == nd.take(endp as int),
            off + 1 <= p <= endp, defl_tok == vocab,
            r.rinv(), r.ok(r.stack()), r.cap() == old(r).cap(), depth_fits(nd, d, off as int, old(r).cap() - s0.len()),
            prefix_closed(r), forall|s: Seq<u8>| r.ok(s) == old(r).ok(s), old(r).ok(s0),
            s0 == old(r).stack(),
            (p < endp || off == 0) ==> next_pop <= r.stack().len(),
            p < endp ==> r.stack().take(r.stack().len() - next_pop) == s0 + path(nd, d, p as int).take(d[p as int] - 1).skip(d[off as int] as int),
            p < endp ==> r.ok(r.stack().take(r.stack().len() - next_pop)),
            (p >= endp && off == 0) ==> r.stack().take(r.stack().len() - next_pop) == s0,
            toks.size == t0.size, toks.nwords() == t0.nwords(), (vocab >> 5) < toks.nwords(), toks.nwords() * 32 <= usize::MAX,
            forall|t: int| toks.has(t) == (t0.has(t) || acc(nd, d, old(r), s0, off as int, p as int, vocab, t)),
            num_skip + 1 <= p - off,
        decreases endp - p,
//@ before r.pop_bytes(next_pop);
            let ghost pi = p as int;
            let ghost oi = off as int;
            let ghost tk = *toks;
            assert(forall|t: int| tk.has(t) == (t0.has(t) || acc(nd, d, old(r), s0, oi, pi, vocab, t)));
//@ after let b = n.byte();
            let ghost s1 = r.stack();
            let ghost pp = path(nd, d, pi).take(d[pi] - 1);
            proof {
                assert(*n == nd[pi]);
                assert(size_ok(nd, pi)); assert(size_ok(nd, oi));
                assert(deeper(nd, d, oi, pi));
                assert(step_ok(d, pi));
                lemma_desc_path(nd, d, vocab, oi, pi);
                lemma_path_len(nd, d, vocab, pi);
                lemma_path_len(nd, d, vocab, oi);
                lemma_nested(nd, d, vocab, oi, pi);
                assert(s1 == s0 + pp.skip(d[oi] as int));
                assert(path(nd, d, pi) =~= pp.push(b));
                assert(s1.push(b) =~= s0 + rel(nd, d, oi, pi));
                assert(d_fits(d, oi, old(r).cap() - s0.len(), pi));
                assert(s1.len() == s0.len() + d[pi] - 1 - d[oi]);
            }
//@ after let tok = n.token_id().unwrap_or(defl_tok);
                proof {
                    assert(tok_ok(nd, pi, vocab));
                    assert(tok == tokv(nd[pi], vocab));
                    assert(tok <= vocab);
                    assert((tok >> 5) <= (vocab >> 5)) by (bit_vector) requires tok <= vocab;
                }
//@ then_end if r.try_push_byte(b)
                proof {
                    let s2 = r.stack();
                    assert(s2 == s1.push(b));
                    assert forall|t: int| toks.has(t) == (t0.has(t) || acc(nd, d, old(r), s0, oi, pi + 1, vocab, t)) by {
                        assert(toks.has(t) == (t == tok || tk.has(t)));
                        assert(tk.has(t) == (t0.has(t) || acc(nd, d, old(r), s0, oi, pi, vocab, t)));
                        if acc(nd, d, old(r), s0, oi, pi + 1, vocab, t) {
                            let j = choose|j: int| oi < j < pi + 1 && #[trigger] tokv(nd[j], vocab) == t && old(r).ok(s0 + rel(nd, d, oi, j));
                            if j < pi { assert(acc(nd, d, old(r), s0, oi, pi, vocab, t)); }
                        }
                        if t == tok {
                            assert(tokv(nd[pi], vocab) == t && old(r).ok(s0 + rel(nd, d, oi, pi)));
                        }
                        if acc(nd, d, old(r), s0, oi, pi, vocab, t) {
                            let j = choose|j: int| oi < j < pi && #[trigger] tokv(nd[j], vocab) == t && old(r).ok(s0 + rel(nd, d, oi, j));
                            assert(oi < j < pi + 1);
                        }
                    }
                    let q = p as int;
                    if q < endp {
                        assert(step_ok(d, q));
                        assert(deeper(nd, d, oi, q));
                        lemma_path_len(nd, d, vocab, q);
                        let pq = path(nd, d, q).take(d[q] - 1);
                        assert(pq =~= path(nd, d, pi).take(d[q] - 1));
                        if nsize(nd[pi]) == 1 {
                            assert(next_ok(nd, d, pi));
                            assert(np_ok(nd, d, pi));
                            assert(s2.take(s2.len() - next_pop) =~= s0 + pq.skip(d[oi] as int));
                            lemma_ok_take(&*r, s2, s2.len() - next_pop);
                        } else {
                            assert(deeper(nd, d, pi, q));
                            assert(s2.take(s2.len() - next_pop) =~= s0 + pq.skip(d[oi] as int));
                            assert(s2.take(s2.len() - next_pop) =~= s2);
                        }
                    } else {
                        // walk finished on an accepted leaf: q == endp, so the subtree of pi is just pi
                        assert(nsize(nd[pi]) == 1);
                        assert(np_ok(nd, d, pi));
                        if oi == 0 {
                            assert(dh(d, endp as int) == 1);
                            assert(next_pop == d[pi]);
                            assert(s2.len() == s0.len() + d[pi]);
                            assert(s2.take(s2.len() - next_pop) =~= s0);
                        }
                    }
                }
//@ else_end if r.try_push_byte(b)
                proof {
                    let q = p as int;
                    assert(!old(r).ok(s0 + rel(nd, d, oi, pi)));
                    assert(np_ok(nd, d, pi));
                    assert forall|t: int| acc(nd, d, old(r), s0, oi, q, vocab, t) == acc(nd, d, old(r), s0, oi, pi, vocab, t) by {
                        if acc(nd, d, old(r), s0, oi, q, vocab, t) {
                            let j = choose|j: int| oi < j < q && #[trigger] tokv(nd[j], vocab) == t && old(r).ok(s0 + rel(nd, d, oi, j));
                            if j >= pi {
                                lemma_desc_path(nd, d, vocab, pi, j);
                                let full = s0 + rel(nd, d, oi, j);
                                lemma_ok_take(&*r, full, s0.len() + d[pi] - d[oi]);
                                assert(full.take(s0.len() + d[pi] - d[oi]) =~= s0 + rel(nd, d, oi, pi));
                            }
                        }
                        if acc(nd, d, old(r), s0, oi, pi, vocab, t) {
                            let j = choose|j: int| oi < j < pi && #[trigger] tokv(nd[j], vocab) == t && old(r).ok(s0 + rel(nd, d, oi, j));
                            assert(oi < j < q);
                        }
                    }
                    if q < endp {
                        assert(next_ok(nd, d, pi));
                        assert(step_ok(d, q));
                        assert(deeper(nd, d, oi, q));
                        lemma_path_len(nd, d, vocab, q);
                        lemma_desc_path(nd, d, vocab, pi, q - 1);
                        let pq = path(nd, d, q).take(d[q] - 1);
                        assert(pq =~= path(nd, d, pi).take(d[q] - 1));
                        assert(s1.take(s1.len() - next_pop) =~= s0 + pq.skip(d[oi] as int));
                        lemma_ok_take(&*r, s1, s1.len() - next_pop);
                    } else {
                        if oi == 0 {
                            assert(dh(d, endp as int) == 1);
                            assert(next_pop == d[pi] - 1);
                            assert(s1.len() == s0.len() + d[pi] - 1);
                            assert(s1.take(s1.len() - next_pop) =~= s0);
                        }
                    }
                }
//@ end

    pub open spec fn is_prefix(a: Seq<u8>, b: Seq<u8>) -> bool { a.len() <= b.len() && b.take(a.len() as int) =~= a }

    /// ASSUMED lookup semantics: index of the node that child_at_bytes(root, start) returns (None if there is none).
    /// That this is the node whose subtree holds exactly the tokens extending `start` is the builder/lookup assumption
    /// (checked on symbolic well-formed tries by the Kani unit trie_k, bounded).
    pub uninterp spec fn spec_child(&self, start: Seq<u8>) -> Option<int>;

//@@ fn toktrie/src/toktree.rs TokTrie::root
//@ ret r
//@ spec
    requires self.nodes@.len() >= 1,
    ensures *r == self.nodes@[0], self.spec_node_offset(r) == 0,
//@ body_start
    proof { admit_root_offset(self); }
//@ end

    #[verifier::external_body]
    pub fn child_at_bytes<'a>(&'a self, n: &'a TrieNode, bytes: &[u8]) -> (r: Option<&'a TrieNode>)
        requires self.wf(), self.spec_node_offset(n) == 0,
        ensures
            match r {
                None => self.spec_child(bytes@) is None,
                Some(c) => self.spec_child(bytes@) == Some(self.spec_node_offset(c))
                    && 0 <= self.spec_node_offset(c) < self.nodes@.len()
                    && self.nodes@[self.spec_node_offset(c)] == *c,
            },
            bytes@.len() == 0 ==> self.spec_child(bytes@) == Some(0int),
    {
        unimplemented!()
    }
//@@ sigcheck toktrie/src/toktree.rs TokTrie::child_at_bytes :: pub fn child_at_bytes<'a>(&'a self, mut n: &'a TrieNode, bytes: &[u8]) -> Option<&'a TrieNode>

    /// t is a token (node j > 0) whose whole byte string is a prefix of `start`
    pub open spec fn prefix_tok(&self, start: Seq<u8>, t: int) -> bool {
        exists|j: int| 0 < j < self.nodes@.len() && #[trigger] tokv(self.nodes@[j], self.vocab()) == t
            && Self::is_prefix(path(self.nodes@, self.depths(), j), start)
    }

//@@ fn toktrie/src/toktree.rs TokTrie::add_bias
//@ spec
    requires
        self.wf(), old(r).fresh(), old(r).rinv(),
        (self.vocab() >> 5) < old(toks).nwords(), old(toks).nwords() * 32 <= usize::MAX,
        // every path below the start node fits the recognizer's stack (only a restriction for StackRecognizer: 299 bytes)
        match self.spec_child(start@) { Some(k) => depth_fits(self.nodes@, self.depths(), k, old(r).cap() as int), None => true },
    ensures
        final(toks).size == old(toks).size, final(toks).nwords() == old(toks).nwords(),
        // no id at or above the vocabulary size is ever reported
        !final(toks).has(self.vocab() as int),
        // every other id: set iff it was set, or it is a token that is a prefix of `start`, or it is a token below the
        // node of `start` whose remaining bytes the recognizer accepts one after another
        forall|t: int| t != self.vocab() ==> (#[trigger] final(toks).has(t) == (old(toks).has(t)
            || (start@.len() > 0 && self.prefix_tok(start@, t))
            || match self.spec_child(start@) {
                   Some(k) => accs(self.nodes@, self.depths(), old(r), Seq::<u8>::empty(), k, k + nsize(self.nodes@[k]), self.vocab(), t),
                   None => false,
               })),
        // the same, spelled out for the empty start (root walk)
        start@.len() == 0 ==> forall|t: int| t != self.vocab() ==> (#[trigger] final(toks).has(t) == (old(toks).has(t)
            || accs(self.nodes@, self.depths(), old(r), Seq::<u8>::empty(), 0, nsize(self.nodes@[0]) as int, self.vocab(), t))),
        final(r).rinv(),
        start@.len() == 0 ==> final(r).fresh(),
    decreases start@.len(),
//@ body_start
    let ghost d = self.depths();
    let ghost nd = self.nodes@;
    let ghost vocab = self.vocab();
    let ghost t0 = *toks;
    proof {
        assert(trie_wf(nd, d, vocab));
        assert(vocab >> 5 == vocab / 32) by (bit_vector);
    }
//@ then_end if !start.is_empty()
    proof {
        // what the FixedRecognizer pass added = tokens that are prefixes of `start`
        let e = Seq::<u8>::empty();
        axiom_spec_child_empty(self);
        assert(self.spec_child(e) == Some(0int));
        assert(nsize(nd[0]) == nd.len());
        assert forall|t: int| t != vocab implies (#[trigger] toks.has(t) == (t0.has(t) || self.prefix_tok(start@, t))) by {
            if accs(nd, d, &fixed0, e, 0, nsize(nd[0]) as int, vocab, t) {
                let j = choose|j: int| 0 < j < nsize(nd[0]) as int && #[trigger] tokv(nd[j], vocab) == t && fixed0.started_ok(e + rel(nd, d, 0, j));
                assert(e + rel(nd, d, 0, j) =~= path(nd, d, j));
                assert(self.prefix_tok(start@, t));
            }
            if self.prefix_tok(start@, t) {
                let j = choose|j: int| 0 < j < nd.len() && #[trigger] tokv(nd[j], vocab) == t && Self::is_prefix(path(nd, d, j), start@);
                assert(e + rel(nd, d, 0, j) =~= path(nd, d, j));
                assert(accs(nd, d, &fixed0, e, 0, nsize(nd[0]) as int, vocab, t));
            }
        }
    }
//@ before self.add_bias(&mut fixed, toks, &[]);
    let ghost fixed0 = fixed;
    proof {
        assert(fixed0.bytes@ =~= start@);
        axiom_spec_child_empty(self);
        assert forall|j: int| 0 < j < 0 + nsize(nd[0]) implies #[trigger] d_fits(d, 0, fixed0.cap() as int, j) by {
            lemma_depth_le_index(nd, d, vocab, j);
        }
        assert(depth_fits(nd, d, 0, fixed0.cap() as int));
    }
//@ before let n = self.child_at_bytes(self.root(), start);
    let ghost t1 = *toks;
    proof {
        assert(!start.is_empty() ==> !t1.has(vocab as int));
        assert forall|t: int| t != vocab implies (#[trigger] t1.has(t) == (t0.has(t) || (start@.len() > 0 && self.prefix_tok(start@, t)))) by { }
    }
//@ before r.trie_started("add_bias");
    let ghost k0 = self.spec_node_offset(n);
    let ghost r0 = *old(r);
//@ after r.trie_started("add_bias");
    let ghost r1 = *r;
//@ before r.trie_finished();
    let ghost t2 = *toks;
    proof {
        assert forall|t: int| t2.has(t) == (t1.has(t) || accs(nd, d, old(r), Seq::<u8>::empty(), k0, k0 + nsize(nd[k0]), vocab, t)) by {
            lemma_acc_accs(nd, d, &r1, old(r), Seq::<u8>::empty(), k0, k0 + nsize(nd[k0]), vocab, t);
        }
    }
//@ end

//@@ fn toktrie/src/toktree.rs TokTrie::has_valid_extensions
//@ ret res
//@ rewrite R8 :: let mut next_pop = 0; ==> let mut next_pop: usize = 0;
//@ spec
    requires self.wf(), old(r).fresh(), old(r).rinv(),
        match self.spec_child(start@) { Some(k) => depth_fits(self.nodes@, self.depths(), k, old(r).cap() as int), None => true },
    ensures
        // true iff some real token strictly below the node of `start` has all its remaining bytes accepted one after another
        res == (match self.spec_child(start@) {
            Some(k) => accs_real(self.nodes@, self.depths(), old(r), Seq::<u8>::empty(), k, k + nsize(self.nodes@[k])),
            None => false,
        }),
        final(r).rinv(),
//@ body_start
    let ghost d = self.depths();
    let ghost nd = self.nodes@;
    let ghost vocab = self.vocab();
    proof { assert(trie_wf(nd, d, vocab)); }
//@ after r.trie_started("has_valid_extensions");
    let ghost r1 = *r;
    let ghost s0 = r.stack();
//@ after let endp = off + n.subtree_size();
    proof { assert(size_ok(nd, off as int)); }
//@ after let mut next_pop: usize = 0;
    proof {
        if p < endp {
            assert(deeper(nd, d, off as int, p as int));
            assert(step_ok(d, p as int));
            lemma_path_len(nd, d, vocab, off as int);
            lemma_path_len(nd, d, vocab, p as int);
            let pp = path(nd, d, p as int).take(d[p as int] - 1);
            assert(pp.len() == d[off as int]);
            assert(pp.skip(d[off as int] as int) =~= Seq::<u8>::empty());
            assert(r.stack().take(r.stack().len() - 0) =~= s0 + pp.skip(d[off as int] as int));
        }
        assert(!acc_real(nd, d, &r1, s0, off as int, p as int));
    }
//@ loop 1
        invariant_except_break
            off + 1 <= p <= endp,
            p < endp ==> next_pop <= r.stack().len(),
            p < endp ==> r.stack().take(r.stack().len() - next_pop) == s0 + path(nd, d, p as int).take(d[p as int] - 1).skip(d[off as int] as int),
            p < endp ==> r.ok(r.stack().take(r.stack().len() - next_pop)),
            !ok,
            !acc_real(nd, d, &r1, s0, off as int, p as int),
        invariant
            trie_wf(nd, d, vocab), nd == self.nodes@, vocab == self.vocab(), d == self.depths(),
            off < nd.len(), endp == off + nsize(nd[off as int]), endp <= nd.len(),
            r.rinv(), r.ok(r.stack()), r.cap() == r1.cap(), depth_fits(nd, d, off as int, r1.cap() - s0.len()),
            prefix_closed(r), forall|s: Seq<u8>| r.ok(s) == r1.ok(s), r1.ok(s0), s0 == r1.stack(),
        ensures
            ok == acc_real(nd, d, &r1, s0, off as int, endp as int),
            r.rinv(),
        decreases endp - p,
//@ before r.pop_bytes(next_pop);
            let ghost pi = p as int;
            let ghost oi = off as int;
//@ after let b = n.byte();
            let ghost s1 = r.stack();
            let ghost pp = path(nd, d, pi).take(d[pi] - 1);
            proof {
                assert(*n == nd[pi]);
                assert(size_ok(nd, pi)); assert(size_ok(nd, oi));
                assert(deeper(nd, d, oi, pi));
                assert(step_ok(d, pi));
                lemma_desc_path(nd, d, vocab, oi, pi);
                lemma_path_len(nd, d, vocab, pi);
                lemma_path_len(nd, d, vocab, oi);
                lemma_nested(nd, d, vocab, oi, pi);
                assert(s1 == s0 + pp.skip(d[oi] as int));
                assert(path(nd, d, pi) =~= pp.push(b));
                assert(s1.push(b) =~= s0 + rel(nd, d, oi, pi));
                assert(d_fits(d, oi, r1.cap() - s0.len(), pi));
                assert(s1.len() == s0.len() + d[pi] - 1 - d[oi]);
            }
//@ then_start if n.token_id().is_some()
                    proof {
                        assert(ntok(nd[pi]) != NO_TOKEN && r1.ok(s0 + rel(nd, d, oi, pi)));
                        assert(oi < pi < endp as int);
                        assert(acc_real(nd, d, &r1, s0, oi, endp as int));
                    }
//@ then_end if r.try_push_byte(b)
                proof {
                    let s2 = r.stack();
                    assert(s2 == s1.push(b));
                    assert(!acc_real(nd, d, &r1, s0, oi, pi + 1)) by {
                        if acc_real(nd, d, &r1, s0, oi, pi + 1) {
                            let j = choose|j: int| oi < j < pi + 1 && #[trigger] ntok(nd[j]) != NO_TOKEN && r1.ok(s0 + rel(nd, d, oi, j));
                            if j < pi { assert(acc_real(nd, d, &r1, s0, oi, pi)); }
                        }
                    }
                    let q = p as int;
                    if q < endp {
                        assert(step_ok(d, q));
                        assert(deeper(nd, d, oi, q));
                        lemma_path_len(nd, d, vocab, q);
                        let pq = path(nd, d, q).take(d[q] - 1);
                        assert(pq =~= path(nd, d, pi).take(d[q] - 1));
                        if nsize(nd[pi]) == 1 {
                            assert(next_ok(nd, d, pi));
                            assert(np_ok(nd, d, pi));
                            assert(s2.take(s2.len() - next_pop) =~= s0 + pq.skip(d[oi] as int));
                            lemma_ok_take(&*r, s2, s2.len() - next_pop);
                        } else {
                            assert(deeper(nd, d, pi, q));
                            assert(s2.take(s2.len() - next_pop) =~= s0 + pq.skip(d[oi] as int));
                            assert(s2.take(s2.len() - next_pop) =~= s2);
                        }
                    }
                }
//@ else_end if r.try_push_byte(b)
                proof {
                    let q = p as int;
                    assert(!r1.ok(s0 + rel(nd, d, oi, pi)));
                    assert(np_ok(nd, d, pi));
                    assert(!acc_real(nd, d, &r1, s0, oi, q)) by {
                        if acc_real(nd, d, &r1, s0, oi, q) {
                            let j = choose|j: int| oi < j < q && #[trigger] ntok(nd[j]) != NO_TOKEN && r1.ok(s0 + rel(nd, d, oi, j));
                            if j >= pi {
                                lemma_desc_path(nd, d, vocab, pi, j);
                                let full = s0 + rel(nd, d, oi, j);
                                lemma_ok_take(&*r, full, s0.len() + d[pi] - d[oi]);
                                assert(full.take(s0.len() + d[pi] - d[oi]) =~= s0 + rel(nd, d, oi, pi));
                            } else {
                                assert(acc_real(nd, d, &r1, s0, oi, pi));
                            }
                        }
                    }
                    if q < endp {
                        assert(next_ok(nd, d, pi));
                        assert(step_ok(d, q));
                        assert(deeper(nd, d, oi, q));
                        lemma_path_len(nd, d, vocab, q);
                        lemma_desc_path(nd, d, vocab, pi, q - 1);
                        let pq = path(nd, d, q).take(d[q] - 1);
                        assert(pq =~= path(nd, d, pi).take(d[q] - 1));
                        assert(s1.take(s1.len() - next_pop) =~= s0 + pq.skip(d[oi] as int));
                        lemma_ok_take(&*r, s1, s1.len() - next_pop);
                    }
                }
//@ before r.trie_finished();
    proof {
        let k0 = off as int;
        assert(self.spec_child(start@) == Some(k0));
        lemma_accreal_accs(nd, d, &r1, old(r), Seq::<u8>::empty(), k0, k0 + nsize(nd[k0]));
    }
//@ end
}

//@@ struct toktrie/src/toktree.rs FixedRecognizer

// assumed std spec (trusted): <[u8]>::to_vec copies the slice
pub assume_specification<T: Clone> [<[T]>::to_vec] (s: &[T]) -> (r: Vec<T>)
    ensures r@.len() == s@.len(), forall|i: int| 0 <= i < s@.len() ==> cloned(s@[i], #[trigger] r@[i]);

impl FixedRecognizer {
//@@ fn toktrie/src/toktree.rs FixedRecognizer::new
//@ ret r
//@ spec
    ensures r.bytes@ == bytes@, r.bytes_ptr == 0,
//@ end
}

impl Recognizer for FixedRecognizer {
    open spec fn stack(&self) -> Seq<u8> { self.bytes@.take(self.bytes_ptr as int) }
    open spec fn ok(&self, s: Seq<u8>) -> bool { TokTrie::is_prefix(s, self.bytes@) }
    open spec fn started_ok(&self, s: Seq<u8>) -> bool { TokTrie::is_prefix(s, self.bytes@) }
    open spec fn fresh(&self) -> bool { self.bytes_ptr == 0 }
    open spec fn rinv(&self) -> bool { self.bytes_ptr <= self.bytes@.len() }
    /// FixedRecognizer has no stack array: a push only moves an index that never passes |bytes|
    open spec fn cap(&self) -> nat { 0x1_0000_0000_0000_0000nat }

//@@ fn toktrie/src/toktree.rs Recognizer@FixedRecognizer::pop_bytes
//@ end
//@@ fn toktrie/src/toktree.rs Recognizer@FixedRecognizer::try_push_byte
//@ body_start
    let ghost st = self.stack();
    let ghost bs = self.bytes@;
    proof {
        assert(st.len() == self.bytes_ptr);
        if TokTrie::is_prefix(st.push(byte), bs) {
            assert(bs.take(st.len() as int + 1)[st.len() as int] == st.push(byte)[st.len() as int]);
        }
        if self.bytes_ptr < bs.len() && bs[self.bytes_ptr as int] == byte {
            assert(bs.take(self.bytes_ptr + 1) =~= st.push(byte));
        }
    }
//@ end
//@@ fn toktrie/src/toktree.rs Recognizer@FixedRecognizer::trie_finished
//@ end
//@@ fn toktrie/src/toktree.rs trait@Recognizer::trie_started
//@ body_start
    proof {
        assert(self.bytes@.take(0) =~= Seq::<u8>::empty());
        assert forall|s: Seq<u8>, b: u8| self.ok(#[trigger] s.push(b)) implies self.ok(s) by {
            lemma_is_prefix_closed(s, b, self.bytes@);
        }
    }
//@ end
//@@ fn toktrie/src/toktree.rs trait@Recognizer::save_stats
//@ end
}

pub proof fn axiom_spec_child_empty(t: &TokTrie)
    ensures t.spec_child(Seq::<u8>::empty()) == Some(0int),
        forall|s: Seq<u8>| s.len() == 0 ==> #[trigger] t.spec_child(s) == Some(0int),
{
    admit(); // ASSUMED: child_at_bytes(root, []) returns the root (its loop body never runs)
}

pub proof fn admit_root_offset(t: &TokTrie)
    ensures t.nodes@.len() >= 1 ==> t.spec_node_offset(&t.nodes@[0]) == 0,
{
    admit(); // ASSUMED: node_offset(root) == 0 (pointer identity of &self.nodes[0])
}


// vacuity guards (must FAIL)
/// the layout invariant is satisfiable for tries with several nodes
pub proof fn must_fail_trie_wf_contradictory(nodes: Seq<TrieNode>, d: Seq<nat>, vocab: u32)
    requires trie_wf(nodes, d, vocab), nodes.len() >= 3,
{
    assert(false);
}
/// the walk does set bits: a mask that was empty need not stay empty
pub fn must_fail_add_bias_sets_nothing<R: Recognizer>(t: &TokTrie, r: &mut R, toks: &mut SimpleVob, start: &[u8])
    requires
        t.wf(), old(r).fresh(), old(r).rinv(), start@.len() == 0,
        (t.vocab() >> 5) < old(toks).nwords(), old(toks).nwords() * 32 <= usize::MAX,
        depth_fits(t.nodes@, t.depths(), 0, old(r).cap() as int),
        t.spec_child(start@) == Some(0int),
        forall|k: int| !old(toks).has(k),
{
    t.add_bias(r, toks, start);
    assert(forall|k: int| !toks.has(k));
}

} // verus!
fn main() {}
