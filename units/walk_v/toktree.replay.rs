//@@ append toktrie/src/toktree.rs
// Replay / search harness for the Verus units walk_v, chop_v, svob_v: executable forms of the contracts, run natively on the
// real functions over seeded random vocabularies, acceptors and start prefixes.  Prints REPLAY-FAIL <input> on a violation.
#[cfg(test)]
mod verif_replay_toktrie {
    use super::*;
    use crate::recognizer::{FunctionalRecognizer, StackRecognizer};
    use std::collections::BTreeSet;

    struct Rng(u64);
    impl Rng {
        fn next(&mut self) -> u64 {
            self.0 ^= self.0 << 13;
            self.0 ^= self.0 >> 7;
            self.0 ^= self.0 << 17;
            self.0
        }
        fn below(&mut self, n: u64) -> u64 {
            self.next() % n
        }
    }

    /// random DFA over 4 byte classes, state 0 initial, u8::MAX = reject
    #[derive(Clone)]
    struct Dfa {
        tr: [[u8; 4]; 4],
    }
    impl FunctionalRecognizer<u8> for Dfa {
        fn initial(&self) -> u8 {
            0
        }
        fn try_append(&self, state: u8, byte: u8) -> Option<u8> {
            let n = self.tr[state as usize][(byte % 4) as usize];
            if n == u8::MAX {
                None
            } else {
                Some(n)
            }
        }
    }
    fn accepts(d: &Dfa, bytes: &[u8]) -> bool {
        let mut s = 0u8;
        for &b in bytes {
            match d.try_append(s, b) {
                Some(n) => s = n,
                None => return false,
            }
        }
        true
    }

    fn random_vocab(rng: &mut Rng) -> Vec<Vec<u8>> {
        let n = [1u64, 2, 5, 31, 32, 33, 40, 63, 64, 65, 100][rng.below(11) as usize] as usize;
        let alpha = 1 + rng.below(5) as u8;
        let mut words: Vec<Vec<u8>> = Vec::new();
        for i in 0..n {
            let r = rng.below(10);
            let w = if r == 0 {
                vec![] // empty entry
            } else if r == 1 && i > 0 {
                words[rng.below(i as u64) as usize].clone() // duplicate
            } else if r == 2 && i > 0 {
                let mut w = words[rng.below(i as u64) as usize].clone(); // extension of an existing token
                w.push(rng.below(alpha as u64) as u8);
                w
            } else if r == 3 {
                let mut w = vec![0xff]; // special-marker token
                w.push(b'a' + rng.below(3) as u8);
                w
            } else {
                let len = 1 + rng.below(6) as usize;
                (0..len).map(|_| rng.below(alpha as u64) as u8).collect()
            };
            words.push(w);
        }
        words
    }

    /// executable TrieWf (DESIGN.md section 3): depths from the nesting of subtree sizes, num_parents = levels closed,
    /// token ids in range, and every non-empty vocabulary entry reachable at a node carrying its id
    fn check_trie_wf(trie: &TokTrie, words: &[Vec<u8>]) -> Result<(), String> {
        let nodes = &trie.nodes;
        let n = nodes.len();
        if n == 0 || nodes[0].subtree_size() != n {
            return Err(format!("root subtree size {} != node count {n}", nodes[0].subtree_size()));
        }
        // depth and path of every node via a stack of (end index, path length)
        let mut ends: Vec<usize> = vec![n];
        let mut path: Vec<u8> = vec![];
        let mut depth = vec![0usize; n];
        let mut paths: Vec<Vec<u8>> = vec![vec![]; n];
        for j in 1..n {
            while *ends.last().unwrap() <= j {
                ends.pop();
                path.pop();
            }
            let sz = nodes[j].subtree_size();
            if sz < 1 || j + sz > *ends.last().unwrap() {
                return Err(format!("node {j}: subtree [{j},{}) not nested in its parent's", j + sz));
            }
            depth[j] = ends.len();
            path.push(nodes[j].byte());
            paths[j] = path.clone();
            ends.push(j + sz);
            if let Some(t) = nodes[j].token_id() {
                if t as usize >= words.len() {
                    return Err(format!("node {j}: token id {t} out of range"));
                }
                if words[t as usize] != paths[j] {
                    return Err(format!("node {j}: carries token {t} but its path is {:?}", paths[j]));
                }
            }
        }
        for j in 1..n {
            let e = j + nodes[j].subtree_size();
            let dnext = if e < n { depth[e] } else { 1 };
            if nodes[j].num_parents() != depth[j] + 1 - dnext {
                return Err(format!("node {j}: num_parents {} != depth {} - next depth {dnext} + 1", nodes[j].num_parents(), depth[j]));
            }
        }
        for (i, w) in words.iter().enumerate() {
            if !w.is_empty() && !(1..n).any(|j| nodes[j].token_id() == Some(i as u32) && paths[j] == *w) {
                return Err(format!("token {i} {w:?} has no node"));
            }
        }
        Ok(())
    }

    #[test]
    fn verif_replay_toktrie() {
        let seed: u64 = std::env::var("VERIF_SEED").ok().and_then(|s| s.parse().ok()).unwrap_or(0);
        let mut rng = Rng(0x9E3779B97F4A7C15 ^ seed.wrapping_mul(0x2545F4914F6CDD1D) | 1);
        let mut cases = 0usize;
        for _ in 0..400 {
            let words = random_vocab(&mut rng);
            let n_vocab = words.len();
            let trie = TokTrie::from(&TokRxInfo::new(n_vocab as u32, 0), &words);
            // ASSUMPTION CHECK (TrieBuilder => TrieWf): the layout invariant the Verus proof of the walk assumes
            if let Err(e) = check_trie_wf(&trie, &words) {
                panic!("REPLAY-FAIL trie layout invariant (TrieWf) violated by TokTrie::from: {e}; vocab={words:?}");
            }
            // greedy tokenisation of covered text decodes back to it
            if (0u8..=255).all(|b| words.iter().any(|w| w.len() == 1 && w[0] == b)) || true {
                let mut text: Vec<u8> = vec![];
                for _ in 0..4 {
                    let w = &words[rng.below(n_vocab as u64) as usize];
                    if !w.is_empty() && w[0] != 0xff {
                        text.extend_from_slice(w);
                    }
                }
                // only claim the round trip when every byte of the text is itself a token (coverage)
                if text.iter().all(|b| words.iter().any(|w| w.len() == 1 && w[0] == *b)) {
                    let toks = trie.greedy_tokenize(&text);
                    let back: Vec<u8> = toks.iter().flat_map(|&t| trie.token(t).to_vec()).collect();
                    if back != text {
                        panic!("REPLAY-FAIL greedy_tokenize({text:?}) = {toks:?} decodes to {back:?}; vocab={words:?}");
                    }
                }
            }
            // token <-> bytes
            for (i, w) in words.iter().enumerate() {
                if trie.token(i as u32) != &w[..] {
                    panic!("REPLAY-FAIL token({i}) != vocabulary entry; vocab={words:?}");
                }
            }
            for _ in 0..6 {
                let mut tr = [[u8::MAX; 4]; 4];
                for s in 0..4 {
                    for c in 0..4 {
                        if rng.below(3) != 0 {
                            tr[s][c] = rng.below(4) as u8;
                        }
                    }
                }
                let dfa = Dfa { tr };
                // start: empty, a prefix of some token, or a whole token
                let start: Vec<u8> = match rng.below(3) {
                    0 => vec![],
                    _ => {
                        let w = &words[rng.below(n_vocab as u64) as usize];
                        if w.is_empty() { vec![] } else { w[..1 + rng.below(w.len() as u64) as usize].to_vec() }
                    }
                };
                let mut rec = StackRecognizer::from(dfa.clone());
                let mut got = trie.alloc_token_set();
                // pre-existing content must be preserved
                let pre = rng.below(n_vocab as u64) as u32;
                if rng.below(2) == 0 {
                    got.allow_token(pre);
                }
                let before = got.clone();
                trie.add_bias(&mut rec, &mut got, &start);
                let node_exists = start.is_empty() || words.iter().any(|w| w.len() >= start.len() && w[..start.len()] == start[..]);
                let mut any_ext = false;
                for (i, w) in words.iter().enumerate() {
                    if w.is_empty() {
                        continue;
                    }
                    let is_prefix_tok = !start.is_empty() && w.len() <= start.len() && start[..w.len()] == w[..];
                    let ext = node_exists && w.len() > start.len() && w[..start.len()] == start[..] && accepts(&dfa, &w[start.len()..]);
                    any_ext = any_ext || ext;
                    let want = before.is_allowed(i as u32) || is_prefix_tok || ext;
                    if got.is_allowed(i as u32) != want {
                        panic!("REPLAY-FAIL add_bias: token {i} {:?}: mask says {}, per-token byte test says {}; start={start:?} vocab={words:?} dfa={:?}",
                            w, got.is_allowed(i as u32), want, dfa.tr);
                    }
                }
                for j in n_vocab..got.as_slice().len() * 32 {
                    if got.as_slice()[j / 32] & (1 << (j % 32)) != 0 {
                        panic!("REPLAY-FAIL add_bias: mask contains id {j} >= vocabulary size {n_vocab}; start={start:?} vocab={words:?}");
                    }
                }
                let mut rec2 = StackRecognizer::from(dfa.clone());
                let hve = trie.has_valid_extensions(&mut rec2, &start);
                if hve != any_ext {
                    panic!("REPLAY-FAIL has_valid_extensions={hve}, naive={any_ext}; start={start:?} vocab={words:?} dfa={:?}", dfa.tr);
                }
                // chop_tokens: whole tokens, exact byte count
                let ntok = rng.below(6) as usize;
                let toks: Vec<u32> = (0..ntok).map(|_| rng.below(n_vocab as u64) as u32).collect();
                let mut rec3 = StackRecognizer::from(dfa.clone());
                let (k, b) = trie.chop_tokens(&mut rec3, &toks);
                let want_b: usize = toks[toks.len() - k..].iter().map(|&t| trie.decode_raw(&[t]).len()).sum();
                if k > toks.len() || b != want_b || (k == 0) != (b == 0) {
                    panic!("REPLAY-FAIL chop_tokens({toks:?}) = ({k},{b}) but the last {k} tokens spell {want_b} bytes; vocab={words:?}");
                }
                for &t in &toks {
                    if trie.token_len(t) != trie.decode_raw(&[t]).len() {
                        panic!("REPLAY-FAIL token_len({t}) = {} but decode_raw gives {} bytes", trie.token_len(t), trie.decode_raw(&[t]).len());
                    }
                }
                cases += 1;
            }
        }
        // SimpleVob against a set model, sizes around the word boundaries
        for _ in 0..3000 {
            let size = [1usize, 5, 31, 32, 33, 63, 64, 65, 96, 100][rng.below(10) as usize];
            let mut v = SimpleVob::alloc_with_capacity(size, size + 1);
            let mut model: BTreeSet<u32> = BTreeSet::new();
            for _ in 0..rng.below(12) {
                match rng.below(4) {
                    0 => {
                        let t = rng.below(size as u64) as u32;
                        v.allow_token(t);
                        model.insert(t);
                    }
                    1 => {
                        let t = rng.below(size as u64) as u32;
                        v.disallow_token(t);
                        model.remove(&t);
                    }
                    _ => {
                        let a = rng.below(size as u64) as u32;
                        let b = rng.below(size as u64) as u32;
                        v.allow_range(a..=b);
                        for t in a..=b {
                            model.insert(t);
                        }
                    }
                }
            }
            let got: Vec<u32> = v.iter().collect();
            let want: Vec<u32> = model.iter().cloned().collect();
            if got != want {
                panic!("REPLAY-FAIL SimpleVob(size {size}): iter() = {got:?}, set model = {want:?}");
            }
            let mut t = v.clone();
            t.trim_trailing_zeros();
            if t.iter().collect::<Vec<_>>() != want {
                panic!("REPLAY-FAIL trim_trailing_zeros changed the set: {want:?}");
            }
            cases += 1;
        }
        println!("verif_replay_toktrie: {cases} cases ok");
    }
}
