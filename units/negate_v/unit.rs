// Unit negate_v: the complement computation of GrammarBuilder::negated_token_ranges (parser/src/grammar_builder.rs), unbounded in
// the number of ranges.  The statement span (everything inside `if let Some(te) = &self.tok_env { .. }` after `let trie = ..`) is the
// body of `negate`; `trie` is a shim carrying only vocab_size().
use vstd::prelude::*;
use std::ops::RangeInclusive;

// R3: anyhow's ensure! = early `return Err(..)` without the message
macro_rules! ensure { ($c:expr, $($t:tt)*) => { if !($c) { return Err(VErr {}); } }; }

verus! {

pub struct VErr {}
pub type Result<T> = core::result::Result<T, VErr>;

pub struct ShimTrie { pub vocab: usize }
impl ShimTrie {
    /// TokTrie::vocab_size (proved to return the table length in unit walk_v)
    pub fn vocab_size(&self) -> (r: usize) ensures r == self.vocab { self.vocab }
}

pub open spec fn ri_start<Idx>(r: RangeInclusive<Idx>) -> Idx { r@.start }
pub open spec fn ri_end<Idx>(r: RangeInclusive<Idx>) -> Idx { r@.end }
// assumed std specs (trusted): start()/end() read the bounds the range was built with
pub assume_specification<Idx> [std::ops::RangeInclusive::<Idx>::end] (r: &RangeInclusive<Idx>) -> (e: &Idx)
    ensures *e == ri_end(*r);
pub assume_specification<Idx> [std::ops::RangeInclusive::<Idx>::start] (r: &RangeInclusive<Idx>) -> (e: &Idx)
    ensures *e == ri_start(*r);

/// token t is inside one of the ranges
pub open spec fn covered(s: Seq<RangeInclusive<u32>>, t: int) -> bool {
    exists|i: int| 0 <= i < s.len() && has(s[i], t)
}
pub open spec fn has(r: RangeInclusive<u32>, t: int) -> bool { ri_start(r) <= t <= ri_end(r) }
pub open spec fn legal(r: RangeInclusive<u32>, vocab: int) -> bool { ri_start(r) <= ri_end(r) < vocab }
pub open spec fn all_legal(s: Seq<RangeInclusive<u32>>, vocab: int) -> bool {
    forall|i: int| 0 <= i < s.len() ==> legal(#[trigger] s[i], vocab)
}
pub open spec fn sorted_by_start(s: Seq<RangeInclusive<u32>>) -> bool {
    forall|i: int, j: int| 0 <= i <= j < s.len() ==> ri_start(#[trigger] s[i]) <= ri_start(#[trigger] s[j])
}

/// ASSUMED (std): `v.sort_by_key(|r| *r.start())` permutes v and leaves it ordered by start  (rewrite R13)
#[verifier::external_body]
pub fn sort_by_start(v: &mut Vec<RangeInclusive<u32>>)
    ensures final(v)@.to_multiset() == old(v)@.to_multiset(), sorted_by_start(final(v)@),
{ unimplemented!() }

/// ASSUMED (std): cloning a Vec<RangeInclusive<u32>> gives an equal sequence (rewrite R15)
#[verifier::external_body]
pub fn clone_ranges(v: &Vec<RangeInclusive<u32>>) -> (r: Vec<RangeInclusive<u32>>)
    ensures r@ == v@,
{ unimplemented!() }

pub proof fn lemma_perm_covered(a: Seq<RangeInclusive<u32>>, b: Seq<RangeInclusive<u32>>, vocab: int)
    requires a.to_multiset() == b.to_multiset(),
    ensures forall|t: int| covered(a, t) == covered(b, t), all_legal(a, vocab) == all_legal(b, vocab), a.len() == b.len(),
{
    a.to_multiset_ensures();
    b.to_multiset_ensures();
    assert(a.len() == a.to_multiset().len());
    a.to_multiset_ensures();
    b.to_multiset_ensures();
    assert forall|t: int| covered(a, t) implies covered(b, t) by {
        let i = choose|i: int| 0 <= i < a.len() && has(a[i], t);
        assert(a.contains(a[i]));
        assert(a.to_multiset().count(a[i]) > 0);
        assert(b.to_multiset().count(a[i]) > 0);
        assert(b.contains(a[i]));
        let j = choose|j: int| 0 <= j < b.len() && b[j] == a[i];
        assert(has(b[j], t));
    }
    assert forall|t: int| covered(b, t) implies covered(a, t) by {
        let i = choose|i: int| 0 <= i < b.len() && has(b[i], t);
        assert(b.contains(b[i]));
        assert(b.to_multiset().count(b[i]) > 0);
        assert(a.to_multiset().count(b[i]) > 0);
        assert(a.contains(b[i]));
        let j = choose|j: int| 0 <= j < a.len() && a[j] == b[i];
        assert(has(a[j], t));
    }
    if all_legal(a, vocab) {
        assert forall|i: int| 0 <= i < b.len() implies legal(#[trigger] b[i], vocab) by {
            assert(b.contains(b[i])); assert(b.to_multiset().count(b[i]) > 0); assert(a.to_multiset().count(b[i]) > 0); assert(a.contains(b[i]));
            let j = choose|j: int| 0 <= j < a.len() && a[j] == b[i];
            assert(legal(a[j], vocab));
        }
    }
    if all_legal(b, vocab) {
        assert forall|i: int| 0 <= i < a.len() implies legal(#[trigger] a[i], vocab) by {
            assert(a.contains(a[i])); assert(a.to_multiset().count(a[i]) > 0); assert(b.to_multiset().count(a[i]) > 0); assert(b.contains(a[i]));
            let j = choose|j: int| 0 <= j < b.len() && b[j] == a[i];
            assert(legal(b[j], vocab));
        }
    }
}

pub proof fn lemma_take_step(s: Seq<RangeInclusive<u32>>, j: int)
    requires 1 <= j <= s.len(),
    ensures
        forall|t: int| #[trigger] covered(s.take(j), t) == (covered(s.take(j - 1), t) || has(s[j - 1], t)),
        forall|v: int| #[trigger] all_legal(s.take(j), v) == (all_legal(s.take(j - 1), v) && legal(s[j - 1], v)),
{
    let i = j - 1;
    let a = s.take(j - 1);
    let b = s.take(j);
    assert forall|t: int| covered(b, t) == (covered(a, t) || has(s[i], t)) by {
        if covered(b, t) {
            let k = choose|k: int| 0 <= k < b.len() && has(b[k], t);
            if k < i { assert(has(a[k], t)); }
        }
        if covered(a, t) {
            let k = choose|k: int| 0 <= k < a.len() && has(a[k], t);
            assert(has(b[k], t));
        }
        if has(s[i], t) { assert(has(b[i], t)); }
    }
    assert forall|v: int| all_legal(b, v) == (all_legal(a, v) && legal(s[i], v)) by {
        if all_legal(b, v) {
            assert forall|k: int| 0 <= k < a.len() implies legal(#[trigger] a[k], v) by { assert(legal(b[k], v)); }
            assert(legal(b[i], v));
        }
        if all_legal(a, v) && legal(s[i], v) {
            assert forall|k: int| 0 <= k < b.len() implies legal(#[trigger] b[k], v) by {
                if k < i { assert(legal(a[k], v)); }
            }
        }
    }
}

pub proof fn lemma_push(s: Seq<RangeInclusive<u32>>)
    ensures
        forall|r: RangeInclusive<u32>, t: int| #[trigger] covered(s.push(r), t) == (covered(s, t) || has(r, t)),
        forall|r: RangeInclusive<u32>, v: int| #[trigger] all_legal(s.push(r), v) == (all_legal(s, v) && legal(r, v)),
{
    assert forall|r: RangeInclusive<u32>, t: int| #[trigger] covered(s.push(r), t) == (covered(s, t) || has(r, t)) by {
        let p = s.push(r);
        let n = p.len() as int;
        lemma_take_step(p, n);
        assert(p.take(n) =~= p);
        assert(p.take(n - 1) =~= s);
        assert(covered(p.take(n), t) == (covered(p.take(n - 1), t) || has(p[n - 1], t)));
    }
    assert forall|r: RangeInclusive<u32>, v: int| #[trigger] all_legal(s.push(r), v) == (all_legal(s, v) && legal(r, v)) by {
        let p = s.push(r);
        let n = p.len() as int;
        lemma_take_step(p, n);
        assert(p.take(n) =~= p);
        assert(p.take(n - 1) =~= s);
        assert(all_legal(p.take(n), v) == (all_legal(p.take(n - 1), v) && legal(p[n - 1], v)));
    }
}

//@@ fn parser/src/grammar_builder.rs GrammarBuilder::negated_token_ranges
//@ span let (min, max) = (0u32, trie.vocab_size() as u32 - 1); ::: @block_end
//@ sig
pub fn negate(trie: &ShimTrie, token_ranges: Vec<RangeInclusive<u32>>) -> Result<Vec<RangeInclusive<u32>>>
//@ wrap
    let verif_r = {
@SPAN@
    };
    Ok(verif_r)
//@ ret res
//@ rewrite R15 :: token_ranges.clone() ==> clone_ranges(&token_ranges)
//@ rewrite R13 :: sorted.sort_by_key(|r| *r.start()); ==> sort_by_start(&mut sorted);
//@ rewrite R7 :: for range in sorted { ==> let mut verif_i: usize = 0; while verif_i < sorted.len() { let range = &sorted[verif_i]; verif_i += 1;
//@ rewrite R14 :: let (&start, &end) = (range.start(), range.end()); ==> let (start, end) = (*range.start(), *range.end());
//@ spec
    requires 1 <= trie.vocab <= u32::MAX,
    ensures
        // accepted exactly when the list is non-empty and every range is well-formed and inside the vocabulary
        res is Ok <==> (token_ranges@.len() > 0 && all_legal(token_ranges@, trie.vocab as int)),
        // the result is the exact complement inside [0, vocab): a token is in some output range iff it is in no input range
        res is Ok ==> all_legal(res->Ok_0@, trie.vocab as int),
        res is Ok ==> forall|t: int| 0 <= t < trie.vocab ==> (covered(res->Ok_0@, t) <==> !covered(token_ranges@, t)),
//@ after sort_by_start(&mut sorted);
    proof {
        lemma_perm_covered(sorted@, token_ranges@, trie.vocab as int);
        assert(sorted@.take(0) =~= Seq::<RangeInclusive<u32>>::empty());
    }
//@ before if current
    proof { assert(sorted@.take(sorted@.len() as int) =~= sorted@); }
//@ after verif_i += 1;
    proof { lemma_take_step(sorted@, verif_i as int); }
//@ then_start if start > current
    proof { lemma_push(negated@); }
//@ then_start if current
    proof { lemma_push(negated@); }
//@ loop 1
    invariant
        token_ranges@.len() > 0,
        all_legal(token_ranges@, trie.vocab as int) == all_legal(sorted@, trie.vocab as int),
        1 <= trie.vocab <= u32::MAX, max == trie.vocab - 1, min == 0,
        sorted_by_start(sorted@), 0 <= verif_i <= sorted@.len(),
        all_legal(sorted@.take(verif_i as int), trie.vocab as int),
        current <= trie.vocab,
        all_legal(negated@, current as int),
        forall|t: int| 0 <= t < current ==> (covered(negated@, t) <==> !covered(sorted@.take(verif_i as int), t)),
        forall|t: int| current <= t ==> !covered(sorted@.take(verif_i as int), t),
        verif_i < sorted@.len() ==> all_legal(negated@, ri_start(sorted@[verif_i as int]) as int),
    decreases sorted@.len() - verif_i,
//@ end

// ---- GrammarBuilder::token_ranges: the validation loop that guards what later reaches SimpleVob::allow_range (which asserts
// `end < size`; proved as a precondition in unit svob_v)
//@@ fn parser/src/grammar_builder.rs GrammarBuilder::token_ranges
//@ span for r in &token_ranges { ::: @stmt_end
//@ sig
pub fn validate_token_ranges(trie: Option<&ShimTrie>, token_ranges: Vec<RangeInclusive<u32>>) -> Result<()>
//@ wrap
@SPAN@
    Ok(())
//@ ret res
//@ rewrite R7 :: for r in &token_ranges { ==> let mut verif_i: usize = 0; while verif_i < token_ranges.len() { let r = &token_ranges[verif_i]; verif_i += 1;
//@ spec
    requires trie is Some ==> trie->0.vocab <= u32::MAX,
    ensures
        // with a tokenizer: accepted exactly when every range is well-formed and ends inside the vocabulary
        trie is Some ==> (res is Ok <==> all_legal(token_ranges@, trie->0.vocab as int)),
        // without one: exactly when every range is well-formed
        trie is None ==> (res is Ok <==> all_legal(token_ranges@, u32::MAX as int + 1)),
//@ after verif_i += 1;
    proof { lemma_take_step(token_ranges@, verif_i as int); }
//@ before Ok(())
    proof { assert(token_ranges@.take(token_ranges@.len() as int) =~= token_ranges@); }
//@ loop 1
    invariant
        trie is Some ==> trie->0.vocab <= u32::MAX,
        0 <= verif_i <= token_ranges@.len(),
        trie is Some ==> all_legal(token_ranges@.take(verif_i as int), trie->0.vocab as int),
        trie is None ==> all_legal(token_ranges@.take(verif_i as int), u32::MAX as int + 1),
    decreases token_ranges@.len() - verif_i,
//@ end

// vacuity guards (must FAIL)
pub fn must_fail_assumed_contracts_contradictory(v: Vec<RangeInclusive<u32>>) {
    let mut s = clone_ranges(&v);
    sort_by_start(&mut s);
    assert(false);
}
pub fn must_fail_negate_never_ok(trie: &ShimTrie, v: Vec<RangeInclusive<u32>>)
    requires 1 <= trie.vocab <= u32::MAX,
{
    let r = negate(trie, v);
    assert(r is Err);
}
/// the complement of one range need not be one range
pub fn must_fail_complement_single_range(trie: &ShimTrie, v: Vec<RangeInclusive<u32>>)
    requires 1 <= trie.vocab <= u32::MAX, v@.len() == 1,
{
    let r = negate(trie, v);
    match r { Ok(n) => { assert(n@.len() <= 1); }, Err(_) => {} }
}

} // verus!
fn main() {}
