// Unit rec_v: StackRecognizer<S, R> (toktrie/src/recognizer.rs) refines the RecModel contract that the trie walk relies on.
use vstd::prelude::*;
verus! {

global size_of usize == 8;

//@@ include common/recmodel.vrs

//@@ const toktrie/src/recognizer.rs STACK_CAPACITY

/// FunctionalRecognizer of recognizer.rs (a pure transition function); `step`/`init` are its mathematical meaning
pub trait FunctionalRecognizer<S: Copy> {
    spec fn step(&self, state: S, byte: u8) -> Option<S>;
    spec fn init(&self) -> S;
    fn initial(&self) -> (r: S)
        ensures r == self.init();
    fn try_append(&self, state: S, byte: u8) -> (r: Option<S>)
        ensures r == self.step(state, byte);
}
//@@ sigcheck toktrie/src/recognizer.rs trait@FunctionalRecognizer::initial :: fn initial(&self) -> S
//@@ sigcheck toktrie/src/recognizer.rs trait@FunctionalRecognizer::try_append :: fn try_append(&self, state: S, byte: u8) -> Option<S>

// the real struct plus one ghost field: the bytes pushed since the walk started (the real struct stores only the states)
//@@ struct toktrie/src/recognizer.rs StackRecognizer ghost=pushed:Seq<u8>

/// state reached from `st` by the bytes of s (None = rejected somewhere)
pub open spec fn run<S: Copy, R: FunctionalRecognizer<S>>(rec: &R, st: S, s: Seq<u8>) -> Option<S>
    decreases s.len()
{
    if s.len() == 0 { Some(st) } else {
        match run(rec, st, s.drop_last()) {
            Some(q) => rec.step(q, s.last()),
            None => None,
        }
    }
}

pub open spec fn st_ok<S: Copy, R: FunctionalRecognizer<S>>(t: &StackRecognizer<S, R>, k: int) -> bool {
    run(&t.rec, t.stack@[0], t.pushed.take(k)) == Some(t.stack@[k])
}

impl<S: Copy, R: FunctionalRecognizer<S>> Recognizer for StackRecognizer<S, R> {
    open spec fn stack(&self) -> Seq<u8> { self.pushed }
    open spec fn ok(&self, s: Seq<u8>) -> bool { run(&self.rec, self.stack@[0], s) is Some }
    open spec fn started_ok(&self, s: Seq<u8>) -> bool { run(&self.rec, self.stack@[0], s) is Some }
    open spec fn fresh(&self) -> bool { self.stack_ptr == 0 && self.pushed.len() == 0 }
    open spec fn rinv(&self) -> bool {
        &&& self.stack@.len() == STACK_CAPACITY
        &&& self.stack_ptr < STACK_CAPACITY
        &&& self.pushed.len() == self.stack_ptr
        &&& forall|k: int| 0 <= k <= self.stack_ptr ==> #[trigger] st_ok(self, k)
    }
    /// the documented limit: the stack does not grow, tokens longer than STACK_CAPACITY - 1 bytes cannot be walked
    open spec fn cap(&self) -> nat { (STACK_CAPACITY - 1) as nat }

//@@ fn toktrie/src/recognizer.rs Recognizer@StackRecognizer::pop_bytes
//@ body_start
    let ghost old_self = *self;
//@ body_end
    proof {
        self.pushed = self.pushed.take(self.pushed.len() - num);
        assert forall|k: int| 0 <= k <= self.stack_ptr implies #[trigger] st_ok(self, k) by {
            assert(st_ok(&old_self, k));
            assert(self.pushed.take(k) =~= old_self.pushed.take(k));
        }
    }
//@ end

//@@ fn toktrie/src/recognizer.rs Recognizer@StackRecognizer::try_push_byte
//@ body_start
    let ghost old_self = *self;
    proof {
        assert(st_ok(&old_self, old_self.stack_ptr as int));
        assert(old_self.pushed.take(old_self.stack_ptr as int) =~= old_self.pushed);
        assert(old_self.pushed.push(byte).drop_last() =~= old_self.pushed);
    }
//@ after self.stack[self.stack_ptr] = state;
    proof {
        self.pushed = self.pushed.push(byte);
        assert forall|k: int| 0 <= k <= self.stack_ptr implies #[trigger] st_ok(self, k) by {
            if k < self.stack_ptr {
                assert(st_ok(&old_self, k));
                assert(self.pushed.take(k) =~= old_self.pushed.take(k));
            } else {
                assert(self.pushed.take(k) =~= old_self.pushed.push(byte));
            }
        }
        assert forall|s: Seq<u8>| self.ok(s) == old_self.ok(s) by { }
    }
//@ end

//@@ fn toktrie/src/recognizer.rs Recognizer@StackRecognizer::trie_finished
//@ body_start
    let ghost old_self = *self;
//@ body_end
    proof {
        self.pushed = Seq::empty();
        assert(st_ok(&old_self, 0));
        assert(self.pushed.take(0) =~= Seq::<u8>::empty());
        assert(old_self.pushed.take(0) =~= Seq::<u8>::empty());
        assert forall|k: int| 0 <= k <= self.stack_ptr implies #[trigger] st_ok(self, k) by { }
    }
//@ end

//@@ fn toktrie/src/toktree.rs trait@Recognizer::trie_started
//@ body_start
    proof {
        assert(self.pushed =~= Seq::<u8>::empty());
        assert forall|s: Seq<u8>, b: u8| self.ok(#[trigger] s.push(b)) implies self.ok(s) by {
            assert(s.push(b).drop_last() =~= s);
        }
    }
//@ end

//@@ fn toktrie/src/toktree.rs trait@Recognizer::save_stats
//@ end
}

// vacuity guard (must be REJECTED): the capacity precondition matters
pub fn must_fail_push_without_room<S: Copy, R: FunctionalRecognizer<S>>(t: &mut StackRecognizer<S, R>, b: u8) -> (r: bool)
    requires old(t).rinv(), old(t).ok(old(t).stack()),
{
    t.try_push_byte(b)
}

} // verus!
fn main() {}
