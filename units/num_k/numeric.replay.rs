//@@ append parser/src/json/numeric.rs
// Replay / differential harness for unit num_k: executable forms of the contracts, run natively on the real functions.
#[cfg(test)]
mod verif_replay_numeric {
    use super::*;
    use crate::json::schema::NumberSchema;

    struct Rng(u64);
    impl Rng {
        fn next(&mut self) -> u64 {
            self.0 ^= self.0 << 13;
            self.0 ^= self.0 >> 7;
            self.0 ^= self.0 << 17;
            self.0
        }
    }

    fn lcm_ref(a: &Decimal, b: &Decimal) -> Option<(u128, u32)> {
        // exact reference in u128 over the common denominator 10^E
        let e = a.exp.max(b.exp);
        if e - a.exp.min(b.exp) > 30 {
            return None;
        }
        let x = a.coef as u128 * 10u128.pow(e - a.exp);
        let y = b.coef as u128 * 10u128.pow(e - b.exp);
        if x == 0 || y == 0 {
            return Some((0, 0));
        }
        fn g(a: u128, b: u128) -> u128 {
            if b == 0 { a } else { g(b, a % b) }
        }
        Some((x / g(x, y) * y, e))
    }

    #[test]
    fn verif_replay_numeric() {
        let seed: u64 = std::env::var("VERIF_SEED").ok().and_then(|s| s.parse().ok()).unwrap_or(0);
        let mut rng = Rng(0x9E3779B97F4A7C15 ^ seed.wrapping_mul(0x2545F4914F6CDD1D) | 1);
        // the historical counterexample first: lcm(65536, 65537) does not fit in u32
        let mut cases: Vec<(u32, u32, u32, u32)> = vec![(65536, 0, 65537, 0), (1, 10, 1, 0), (u32::MAX, 0, u32::MAX - 1, 0), (3, 1, 2, 1)];
        for _ in 0..20000 {
            let r = rng.next();
            let big = r & 1 == 0;
            let c1 = if big { (rng.next() >> 32) as u32 } else { (rng.next() % 5000) as u32 };
            let c2 = if big { (rng.next() >> 32) as u32 } else { (rng.next() % 5000) as u32 };
            cases.push((c1, (rng.next() % 12) as u32, c2, (rng.next() % 12) as u32));
        }
        let mut n = 0;
        for (c1, e1, c2, e2) in cases {
            let a = Decimal { coef: c1, exp: e1 };
            let b = Decimal { coef: c2, exp: e2 };
            // a panic (overflow in a debug build) or a wrong value (wrap in a release build) are both failures
            let got = std::panic::catch_unwind(|| a.checked_lcm(&b));
            let got = match got {
                Ok(g) => g,
                Err(_) => panic!("REPLAY-FAIL lcm of {a:?} and {b:?} panicked (arithmetic overflow)"),
            };
            if let Some((want, e)) = lcm_ref(&a, &b) {
                match got {
                    Some(d) => {
                        if d.exp > e || (d.coef as u128) * 10u128.pow(e - d.exp) != want {
                            panic!("REPLAY-FAIL lcm of {a:?} and {b:?} = {d:?}, exact value is {want}e-{e}");
                        }
                    }
                    None => {
                        // refusing is only right when the exact result (in lowest terms) does not fit
                        let mut w = want;
                        let mut ee = e;
                        while ee > 0 && w % 10 == 0 {
                            w /= 10;
                            ee -= 1;
                        }
                        let _ = (w, ee); // intermediate overflow may also force None; not a violation
                    }
                }
            }
            n += 1;
        }
        // bound selection / integer rounding on seeded finite inputs
        for _ in 0..20000 {
            let pick = |r: &mut Rng| -> Option<f64> {
                match r.next() % 4 {
                    0 => None,
                    1 => Some((r.next() % 41) as f64 - 20.0),
                    2 => Some(((r.next() % 4001) as f64 - 2000.0) / 100.0),
                    _ => Some(((r.next() % 2000001) as f64 - 1000000.0) / 8.0),
                }
            };
            let s = NumberSchema {
                minimum: pick(&mut rng),
                maximum: pick(&mut rng),
                exclusive_minimum: pick(&mut rng),
                exclusive_maximum: pick(&mut rng),
                integer: true,
                multiple_of: None,
            };
            let (lo, hi) = normalize_integer_bounds(&s);
            for k in -25i64..=25 {
                let x = k as f64;
                let sat = s.minimum.map_or(true, |m| x >= m)
                    && s.exclusive_minimum.map_or(true, |m| x > m)
                    && s.maximum.map_or(true, |m| x <= m)
                    && s.exclusive_maximum.map_or(true, |m| x < m);
                let got = lo.map_or(true, |l| k >= l) && hi.map_or(true, |h| k <= h);
                if sat != got {
                    panic!("REPLAY-FAIL integer {k} vs bounds {s:?}: keywords say {sat}, normalized bounds ({lo:?},{hi:?}) say {got}");
                }
                if sat && check_number_bounds(&s).is_err() {
                    panic!("REPLAY-FAIL satisfiable integer schema rejected: {s:?} admits {k}");
                }
            }
            n += 1;
        }
        println!("verif_replay_numeric: {n} cases ok");
    }
}
