//@@ append parser/src/json/numeric.rs
// Unit num_k (Kani path A): harnesses over the real Decimal / bound-normalisation code.
#[cfg(kani)]
mod verif_kani_num {
    use super::*;
    use crate::json::schema::NumberSchema;

    fn any_decimal() -> Decimal {
        Decimal { coef: kani::any(), exp: kani::any() }
    }

    /// Full domain: every (coef, exp) pair of u32s.  `lcm`/`checked_lcm` must not overflow silently:
    /// CBMC's arithmetic-overflow checks on the real body are the obligation.
    #[kani::proof]
    #[kani::unwind(50)]
    fn lcm_no_overflow() {
        let a = any_decimal();
        let b = any_decimal();
        let _ = a.checked_lcm(&b);
    }

    fn pow10(e: u32) -> u64 {
        let mut r = 1u64;
        let mut i = 0;
        while i < e {
            r *= 10;
            i += 1;
        }
        r
    }

    /// Bounded: coef < 32, exp <= 1.  Some(r) => r is a common multiple of both (as exact decimals, compared
    /// over the common denominator 10^E) and no smaller positive common multiple with exponent <= E exists
    /// among the candidates r/k; None is impossible on this domain.
    #[kani::proof]
    #[kani::unwind(50)]
    fn lcm_exact_small() {
        let a = any_decimal();
        let b = any_decimal();
        kani::assume(a.coef >= 1 && a.coef < 32 && b.coef >= 1 && b.coef < 32 && a.exp <= 1 && b.exp <= 1);
        kani::cover!(a.exp != b.exp && a.coef > 1 && b.coef > 1);
        let r = a.checked_lcm(&b);
        assert!(r.is_some());
        let r = r.unwrap();
        let e = a.exp.max(b.exp);
        assert!(r.exp <= e);
        // scale everything to denominator 10^e
        let ra = (a.coef as u64) * pow10(e - a.exp);
        let rb = (b.coef as u64) * pow10(e - b.exp);
        let rr = (r.coef as u64) * pow10(e - r.exp);
        assert!(rr > 0);
        assert!(rr % ra == 0 && rr % rb == 0);
        // minimality: any common multiple m of ra and rb that is <= rr equals rr  (checked for symbolic m)
        let m: u64 = kani::any();
        kani::assume(m > 0 && m <= rr && m % ra == 0 && m % rb == 0);
        assert!(m == rr);
    }

    /// Decimal::new yields the same value in lowest terms: coef' * 10^(exp-exp') == coef, and coef' % 10 != 0 unless exp' == 0.
    #[kani::proof]
    #[kani::unwind(12)]
    fn decimal_new_normal() {
        let coef: u32 = kani::any();
        let exp: u32 = kani::any();
        kani::assume(exp <= 9);
        let d = Decimal::new(coef, exp);
        if coef == 0 {
            assert!(d.coef == 0 && d.exp == 0);
        } else {
            assert!(d.exp <= exp);
            assert!((d.coef as u64) * pow10(exp - d.exp) == coef as u64);
            assert!(d.exp == 0 || d.coef % 10 != 0);
        }
    }

    #[kani::proof]
    #[kani::unwind(16)]
    fn gcd_divides() {
        let a: u32 = kani::any();
        let b: u32 = kani::any();
        kani::assume(a < 256 && b < 256 && (a != 0 || b != 0));
        let g = gcd(a, b);
        assert!(g != 0 && a % g == 0 && b % g == 0);
        let d: u32 = kani::any();
        kani::assume(d != 0 && a % d == 0 && b % d == 0);
        assert!(d <= g);
    }

    // vacuity guard: this harness must FAIL (a false claim about the real code)
    #[kani::proof]
    #[kani::unwind(12)]
    fn mustfail_decimal_new_keeps_exp() {
        let coef: u32 = kani::any();
        let exp: u32 = kani::any();
        kani::assume(exp <= 9);
        let d = Decimal::new(coef, exp);
        assert!(d.exp == exp);
    }
}

#[cfg(kani)]
mod verif_kani_bounds {
    use super::*;
    use crate::json::schema::NumberSchema;

    fn any_f64_no_nan() -> f64 {
        let x: f64 = kani::any();
        kani::assume(!x.is_nan());
        x
    }
    fn any_opt_f64() -> Option<f64> {
        if kani::any() { Some(any_f64_no_nan()) } else { None }
    }
    fn any_bounds(integer: bool) -> NumberSchema {
        NumberSchema {
            minimum: any_opt_f64(),
            maximum: any_opt_f64(),
            exclusive_minimum: any_opt_f64(),
            exclusive_maximum: any_opt_f64(),
            integer,
            multiple_of: None,
        }
    }
    fn sat_lower(s: &NumberSchema, x: f64) -> bool {
        s.minimum.map_or(true, |m| x >= m) && s.exclusive_minimum.map_or(true, |m| x > m)
    }
    fn sat_upper(s: &NumberSchema, x: f64) -> bool {
        s.maximum.map_or(true, |m| x <= m) && s.exclusive_maximum.map_or(true, |m| x < m)
    }

    /// Loop-free, all f64 (NaN excluded): x satisfies `minimum` and `exclusiveMinimum`  <=>  x satisfies the
    /// single (bound, exclusive) pair returned by get_minimum.  Complete.
    #[kani::proof]
    fn get_minimum_tightest() {
        let s = any_bounds(kani::any());
        let x = any_f64_no_nan();
        kani::cover!(s.minimum.is_some() && s.exclusive_minimum.is_some());
        let want = sat_lower(&s, x);
        let got = match s.get_minimum() {
            (None, _) => true,
            (Some(b), true) => x > b,
            (Some(b), false) => x >= b,
        };
        assert!(want == got);
    }

    #[kani::proof]
    fn get_maximum_tightest() {
        let s = any_bounds(kani::any());
        let x = any_f64_no_nan();
        kani::cover!(s.maximum.is_some() && s.exclusive_maximum.is_some());
        let want = sat_upper(&s, x);
        let got = match s.get_maximum() {
            (None, _) => true,
            (Some(b), true) => x < b,
            (Some(b), false) => x <= b,
        };
        assert!(want == got);
    }

    const LIM: f64 = 9007199254740991.0; // 2^53 - 1: below it b +/- 1.0 is exact for integral b

    fn in_dom(b: Option<f64>) -> bool {
        b.map_or(true, |v| v >= -LIM && v <= LIM)
    }

    /// Loop-free: for every integer n with |n| <= 2^53-1 and all (finite: JSON has no infinities) bounds within +/-(2^53-1):
    /// n satisfies the four keywords  <=>  lo <= n <= hi for the (lo, hi) returned by normalize_integer_bounds.
    /// Complete on the stated domain (beyond 2^53 an f64 cannot represent b +/- 1; stated, not claimed).
    #[kani::proof]
    fn normalize_integer_bounds_exact() {
        let s = any_bounds(true);
        kani::assume(in_dom(s.minimum) && in_dom(s.maximum) && in_dom(s.exclusive_minimum) && in_dom(s.exclusive_maximum));
        let n: i64 = kani::any();
        kani::assume(n >= -(LIM as i64) && n <= LIM as i64);
        let x = n as f64;
        kani::cover!(s.exclusive_minimum.is_some() && s.maximum.is_some());
        let (lo, hi) = normalize_integer_bounds(&s);
        let want = sat_lower(&s, x) && sat_upper(&s, x);
        let got = lo.map_or(true, |l| n >= l) && hi.map_or(true, |h| n <= h);
        assert!(want == got);
        assert!(lo.is_some() == (s.minimum.is_some() || s.exclusive_minimum.is_some()));
        assert!(hi.is_some() == (s.maximum.is_some() || s.exclusive_maximum.is_some()));
    }

    fn stub_format(_args: core::fmt::Arguments<'_>) -> String {
        String::new()
    }

    /// check_number_bounds on integer schemas without multipleOf (error-message formatting stubbed):
    /// a satisfying integer exists  =>  Ok   (no satisfiable combination is rejected), and
    /// Ok with both bounds present =>  lo <= hi and lo itself satisfies all four keywords (witness).
    #[kani::proof]
    #[kani::stub(alloc::fmt::format, stub_format)]
    fn check_number_bounds_integer_empty() {
        let s = any_bounds(true);
        kani::assume(in_dom(s.minimum) && in_dom(s.maximum) && in_dom(s.exclusive_minimum) && in_dom(s.exclusive_maximum));
        let n: i64 = kani::any();
        kani::assume(n >= -(LIM as i64) && n <= LIM as i64);
        let x = n as f64;
        let r = check_number_bounds(&s);
        kani::cover!(r.is_err());
        kani::cover!(r.is_ok() && s.minimum.is_some() && s.exclusive_maximum.is_some());
        if sat_lower(&s, x) && sat_upper(&s, x) {
            assert!(r.is_ok());
        }
        if r.is_ok() {
            let (lo, hi) = normalize_integer_bounds(&s);
            if let (Some(l), Some(h)) = (lo, hi) {
                assert!(l <= h);
                if l >= -(LIM as i64) && l <= LIM as i64 {
                    let lf = l as f64;
                    assert!(sat_lower(&s, lf) && sat_upper(&s, lf));
                }
            }
        }
    }

    /// Same for number (non-integer) schemas: a satisfying x exists => Ok; Ok with both bounds => the interval is non-empty
    /// (min < max, or min == max with both inclusive).
    #[kani::proof]
    #[kani::stub(alloc::fmt::format, stub_format)]
    fn check_number_bounds_float_empty() {
        let s = any_bounds(false);
        let x = any_f64_no_nan();
        let r = check_number_bounds(&s);
        kani::cover!(r.is_err());
        if sat_lower(&s, x) && sat_upper(&s, x) {
            assert!(r.is_ok());
        }
        if r.is_ok() {
            if let ((Some(lo), xl), (Some(hi), xh)) = (s.get_minimum(), s.get_maximum()) {
                assert!(lo < hi || (lo == hi && !xl && !xh));
            }
        }
    }

    // vacuity guard: must FAIL
    #[kani::proof]
    fn mustfail_get_minimum_prefers_inclusive() {
        let s = any_bounds(false);
        if let (Some(_), excl) = s.get_minimum() {
            assert!(!excl);
        }
    }
}
