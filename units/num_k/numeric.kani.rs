//@@ append parser/src/json/numeric.rs
// Unit num_k (Kani path A): harnesses over the real Decimal / bound-normalisation code.
#[cfg(kani)]
mod verif_kani_num {
    use super::*;
    use crate::json::schema::NumberSchema;

    fn any_decimal() -> Decimal {
        Decimal { coef: kani::any(), exp: kani::any() }
    }

    /// Full domain: every (coef, exp) pair of u32s.  `lcm`/`checked_lcm` must not overflow silently:
    /// CBMC's arithmetic-overflow checks on the real body are the obligation.
    #[kani::proof]
    #[kani::unwind(50)]
    fn lcm_no_overflow() {
        let a = any_decimal();
        let b = any_decimal();
        let _ = a.checked_lcm(&b);
    }

    fn pow10(e: u32) -> u64 {
        let mut r = 1u64;
        let mut i = 0;
        while i < e {
            r *= 10;
            i += 1;
        }
        r
    }

    /// Bounded: coef < 32, exp <= 1.  Some(r) => r is a common multiple of both (as exact decimals, compared
    /// over the common denominator 10^E) and no smaller positive common multiple with exponent <= E exists
    /// among the candidates r/k; None is impossible on this domain.
    #[kani::proof]
    #[kani::unwind(50)]
    fn lcm_exact_small() {
        let a = any_decimal();
        let b = any_decimal();
        kani::assume(a.coef >= 1 && a.coef < 32 && b.coef >= 1 && b.coef < 32 && a.exp <= 1 && b.exp <= 1);
        kani::cover!(a.exp != b.exp && a.coef > 1 && b.coef > 1);
        let r = a.checked_lcm(&b);
        assert!(r.is_some());
        let r = r.unwrap();
        let e = a.exp.max(b.exp);
        assert!(r.exp <= e);
        // scale everything to denominator 10^e
        let ra = (a.coef as u64) * pow10(e - a.exp);
        let rb = (b.coef as u64) * pow10(e - b.exp);
        let rr = (r.coef as u64) * pow10(e - r.exp);
        assert!(rr > 0);
        assert!(rr % ra == 0 && rr % rb == 0);
        // minimality: any common multiple m of ra and rb that is <= rr equals rr  (checked for symbolic m)
        let m: u64 = kani::any();
        kani::assume(m > 0 && m <= rr && m % ra == 0 && m % rb == 0);
        assert!(m == rr);
    }

    /// Decimal::new yields the same value in lowest terms: coef' * 10^(exp-exp') == coef, and coef' % 10 != 0 unless exp' == 0.
    #[kani::proof]
    #[kani::unwind(12)]
    fn decimal_new_normal() {
        let coef: u32 = kani::any();
        let exp: u32 = kani::any();
        kani::assume(exp <= 9);
        let d = Decimal::new(coef, exp);
        if coef == 0 {
            assert!(d.coef == 0 && d.exp == 0);
        } else {
            assert!(d.exp <= exp);
            assert!((d.coef as u64) * pow10(exp - d.exp) == coef as u64);
            assert!(d.exp == 0 || d.coef % 10 != 0);
        }
    }

    #[kani::proof]
    #[kani::unwind(16)]
    fn gcd_divides() {
        let a: u32 = kani::any();
        let b: u32 = kani::any();
        kani::assume(a < 256 && b < 256 && (a != 0 || b != 0));
        let g = gcd(a, b);
        assert!(g != 0 && a % g == 0 && b % g == 0);
        let d: u32 = kani::any();
        kani::assume(d != 0 && a % d == 0 && b % d == 0);
        assert!(d <= g);
    }

    // vacuity guard: this harness must FAIL (a false claim about the real code)
    #[kani::proof]
    #[kani::unwind(12)]
    fn mustfail_decimal_new_keeps_exp() {
        let coef: u32 = kani::any();
        let exp: u32 = kani::any();
        kani::assume(exp <= 9);
        let d = Decimal::new(coef, exp);
        assert!(d.exp == exp);
    }
}
