// Unit chop_v: token/byte arithmetic of token healing (toktrie/src/toktree.rs token, token_len, chop_tokens).
use vstd::prelude::*;
verus! {

global size_of usize == 8;

pub type TokenId = u32;

//@@ struct toktrie/src/toktree.rs TokDesc derive=Clone,Copy
//@@ struct toktrie/src/toktree.rs TokTrie fields=token_offsets,token_data,max_token_len

/// the Recognizer trait is irrelevant to the arithmetic checked here
pub trait Recognizer { }

pub open spec fn ndigits(n: nat) -> nat
    decreases n
{
    if n < 10 { 1 } else { 1 + ndigits(n / 10) }
}

pub open spec fn sum_len(t: &TokTrie, toks: Seq<u32>) -> nat
    decreases toks.len()
{
    if toks.len() == 0 { 0 } else { sum_len(t, toks.drop_last()) + t.spec_token_len(toks.last()) }
}

pub proof fn lemma_sum_len_bound(t: &TokTrie, toks: Seq<u32>)
    requires t.inv(),
    ensures sum_len(t, toks) <= toks.len() * 0x1_0000_0000,
    decreases toks.len()
{
    if toks.len() > 0 {
        lemma_sum_len_bound(t, toks.drop_last());
        t.lemma_token_len_bound(toks.last());
        assert((toks.len() - 1) * 0x1_0000_0000 + 0x1_0000_0000 == toks.len() * 0x1_0000_0000) by (nonlinear_arith);
    }
}

/// suffix sums: the last k tokens
pub open spec fn tail_len(t: &TokTrie, toks: Seq<u32>, k: int) -> nat {
    sum_len(t, toks.subrange(toks.len() - k, toks.len() as int))
}

pub proof fn lemma_tail_step(t: &TokTrie, toks: Seq<u32>, k: int)
    requires 0 <= k < toks.len(),
    ensures tail_len(t, toks, k + 1) == tail_len(t, toks, k) + t.spec_token_len(toks[toks.len() - k - 1]),
    decreases k
{
    let n = toks.len() as int;
    let a = toks.subrange(n - k - 1, n);
    let b = toks.subrange(n - k, n);
    if k == 0 {
        assert(a.drop_last() =~= Seq::<u32>::empty());
        assert(b =~= Seq::<u32>::empty());
        assert(sum_len(t, a.drop_last()) == 0);
        assert(a.last() == toks[n - 1]);
    } else {
        // peel the last element of both
        assert(a.drop_last() =~= toks.drop_last().subrange(n - 1 - k, n - 1));
        assert(b.drop_last() =~= toks.drop_last().subrange(n - k, n - 1));
        lemma_tail_step(t, toks.drop_last(), k - 1);
        assert(a.last() == toks[n - 1] && b.last() == toks[n - 1]);
        assert(toks.drop_last()[toks.drop_last().len() - (k - 1) - 1] == toks[n - k - 1]);
    }
}

pub proof fn lemma_sum_len_mono(t: &TokTrie, toks: Seq<u32>, k: int, m: int)
    requires 0 <= k <= m <= toks.len(),
    ensures tail_len(t, toks, k) <= tail_len(t, toks, m),
    decreases m - k
{
    if k < m {
        lemma_tail_step(t, toks, m - 1);
        lemma_sum_len_mono(t, toks, k, m - 1);
    }
}

/// the bytes of `format!("[{tok}]")` (ASSUMED std: '[' + decimal digits + ']', ndigits(tok) + 2 bytes)
pub uninterp spec fn spec_bracket(t: u32) -> Seq<u8>;
pub proof fn axiom_bracket_len(t: u32)
    ensures spec_bracket(t).len() == ndigits(t as nat) + 2,
{
    admit(); // ASSUMED: std formatting of a u32 in decimal
}
/// R27: `res.extend_from_slice(format!("[{tok}]").as_bytes());`
#[verifier::external_body]
pub fn extend_bracket(res: &mut Vec<u8>, tok: u32)
    ensures final(res)@ == old(res)@ + spec_bracket(tok),
{ unimplemented!() }

impl TokTrie {
    pub const SPECIAL_TOKEN_MARKER: u8 = 0xff;

    /// layout invariant of the token table (established by TokTrie::from, which is not under contract)
    pub open spec fn inv(&self) -> bool {
        &&& self.token_offsets@.len() <= u32::MAX
        &&& forall|i: int| 0 <= i < self.token_offsets@.len() ==>
                (#[trigger] self.token_offsets@[i]).off + self.token_offsets@[i].len <= self.token_data@.len()
    }
    pub open spec fn spec_token(&self, idx: u32) -> Seq<u8> {
        if idx >= self.token_offsets@.len() { Seq::empty() } else {
            let d = self.token_offsets@[idx as int];
            self.token_data@.subrange(d.off as int, d.off + d.len)
        }
    }
    /// bytes the token contributes to the parser's byte string (= |decode_raw([idx])|): special / empty tokens are
    /// spelled \xFF [ digits ]
    pub open spec fn spec_token_len(&self, idx: u32) -> nat {
        let t = self.spec_token(idx);
        if t.len() == 0 || t[0] == 0xff { ndigits(idx as nat) + 3 } else { t.len() }
    }
    pub proof fn lemma_token_len_bound(&self, idx: u32)
        requires self.inv(),
        ensures 1 <= self.spec_token_len(idx) <= 0x1_0000_0000,
    {
        lemma_ndigits_bound(idx as nat);
    }

//@@ fn toktrie/src/toktree.rs TokTrie::max_token_len
//@ ret r
//@ spec
    ensures r == self.max_token_len,
//@ end

//@@ fn toktrie/src/toktree.rs TokTrie::token
//@ ret r
//@ spec
    requires self.inv(),
    ensures r@ == self.spec_token(idx),
//@ end

//@@ fn toktrie/src/toktree.rs TokTrie::token_len
//@ ret r
//@ spec
    requires self.inv(),
    ensures r == self.spec_token_len(idx),
//@ before let mut idx = idx;
    let ghost idx0 = idx;
//@ loop 1
    invariant len + ndigits(idx as nat) == 1 + ndigits(idx0 as nat), len >= 1, len <= 11, ndigits(idx0 as nat) <= 10, ndigits(idx as nat) >= 1,
    decreases idx,
//@ before while idx >= 10
    proof { lemma_ndigits_bound(idx0 as nat); }
//@ before idx /= 10;
    proof { lemma_ndigits_bound(idx as nat); lemma_ndigits_bound((idx / 10) as nat); }
//@ end

    /// what one token contributes to decode_raw: its own bytes, or the marker followed by the "[id]" spelling for special / empty tokens
    pub open spec fn spec_tok_bytes(&self, t: u32) -> Seq<u8> {
        let b = self.spec_token(t);
        if b.len() == 0 || b[0] == 0xff { seq![0xffu8] + spec_bracket(t) } else { b }
    }
    pub open spec fn spec_decode_raw(&self, toks: Seq<u32>) -> Seq<u8>
        decreases toks.len()
    {
        if toks.len() == 0 { Seq::empty() } else { self.spec_decode_raw(toks.drop_last()) + self.spec_tok_bytes(toks.last()) }
    }
    pub proof fn lemma_decode_raw_len(&self, toks: Seq<u32>)
        requires self.inv(),
        ensures self.spec_decode_raw(toks).len() == sum_len(self, toks),
        decreases toks.len()
    {
        if toks.len() > 0 {
            self.lemma_decode_raw_len(toks.drop_last());
            axiom_bracket_len(toks.last());
        }
    }

//@@ fn toktrie/src/toktree.rs TokTrie::decode_as_special
//@ ret r
//@ rewrite R27 :: res.extend_from_slice(format!("[{tok}]").as_bytes()); ==> extend_bracket(&mut res, tok);
//@ spec
    ensures r@ == seq![0xffu8] + spec_bracket(tok), r@.len() == ndigits(tok as nat) + 3,
//@ after extend_bracket(&mut res, tok);
    proof { axiom_bracket_len(tok); }
//@ end

//@@ fn toktrie/src/toktree.rs TokTrie::decode_raw
//@ ret r
//@ rewrite R7 :: for &tok in tokens { ==> for verif_i in 0..tokens.len() { let tok = tokens[verif_i];
//@ rewrite R27 :: res.extend_from_slice(format!("[{tok}]").as_bytes()); ==> extend_bracket(&mut res, tok);
//@ spec
    requires self.inv(), tokens@.len() * 6 + 32 <= usize::MAX,
    ensures r@ == self.spec_decode_raw(tokens@), r@.len() == sum_len(self, tokens@),
//@ loop 1
    invariant self.inv(), res@ == self.spec_decode_raw(tokens@.take(verif_i as int)),
        self.spec_decode_raw(tokens@).len() == sum_len(self, tokens@),
        verif_i == tokens@.len() ==> res@ == self.spec_decode_raw(tokens@),
//@ before for verif_i in 0..tokens.len()
    proof { self.lemma_decode_raw_len(tokens@); }
//@ after let t = self.token(tok);
    proof {
        assert(tokens@.take(verif_i + 1).drop_last() =~= tokens@.take(verif_i as int));
        assert(tokens@.take(verif_i + 1).last() == tok);
        assert(tokens@.take(tokens@.len() as int) =~= tokens@);
    }
//@ end

    /// contract proved in unit walk_v; here only its shape matters
    #[verifier::external_body]
    pub fn has_valid_extensions(&self, r: &mut impl Recognizer, start: &[u8]) -> (res: bool)
    { unimplemented!() }
//@@ sigcheck toktrie/src/toktree.rs TokTrie::has_valid_extensions :: pub fn has_valid_extensions(&self, r: &mut impl Recognizer, start: &[u8]) -> bool

//@@ fn toktrie/src/toktree.rs TokTrie::chop_tokens
//@ ret res
//@ rewrite R6 :: unreachable!(); ==> verif_unreachable();
//@ spec
    requires self.inv(), tokens@.len() < usize::MAX, // (a slice of u32 can never have usize::MAX elements)
    ensures
        // either nothing is chopped, or whole tokens are chopped and the byte count is exactly what those tokens spell
        (res.0 == 0 && res.1 == 0) || (1 <= res.0 <= tokens@.len() && res.0 <= 4 && res.1 == tail_len(self, tokens@, res.0 as int) && res.1 >= 1),
//@ body_start
    let ghost n = tokens@.len() as int;
    let ghost look = if n < 4 { n } else { 4int };
//@ after self.decode_raw(&tokens[tokens.len().saturating_sub(max_token_lookback)..]);
    proof {
        assert(tokens@.skip(n - look) =~= tokens@.subrange(n - look, n));
        assert(suff_bytes@.len() == tail_len(self, tokens@, look));
    }
//@ loop 1
    invariant
        self.inv(), n == tokens@.len(), look == (if n < 4 { n } else { 4int }), n < usize::MAX,
        suff_bytes@.len() <= tail_len(self, tokens@, look),
//@ loop 2
    invariant
        self.inv(), n == tokens@.len(), look == (if n < 4 { n } else { 4int }),
        chop_bytes <= tail_len(self, tokens@, look), chop_bytes > 0,
        1 <= chop_idx <= n, n >= 1, look >= 1, n < usize::MAX,
        curr_len == tail_len(self, tokens@, chop_idx - 1), curr_len < chop_bytes,
        chop_idx - 1 < look,
//@ after let mut curr_len = 0;
    proof {
        assert(tokens@.subrange(n - 0, n) =~= Seq::<u32>::empty());
        assert(tail_len(self, tokens@, 0) == 0);
        if look == 0 { assert(tail_len(self, tokens@, look) == 0); }
        assert(look >= 1 && n >= 1);
    }
//@ before curr_len += self.token_len(tokens[tokens.len() - chop_idx]);
    proof {
        lemma_tail_step(self, tokens@, chop_idx as int - 1);
        self.lemma_token_len_bound(tokens@[n - chop_idx]);
        lemma_sum_len_bound(self, tokens@.subrange(n - (chop_idx as int - 1), n));
        if chop_idx as int > look { }
    }
//@ after curr_len += self.token_len(tokens[tokens.len() - chop_idx]);
    proof {
        if curr_len < chop_bytes {
            // then we have not yet consumed all `look` tokens
            lemma_sum_len_mono(self, tokens@, chop_idx as int, look);
            if chop_idx as int >= look {
                lemma_sum_len_mono(self, tokens@, look, chop_idx as int);
            }
            assert((chop_idx as int) < look);
        }
    }
//@ end
}

// vacuity guards (must FAIL)
pub fn must_fail_decode_raw_empty(t: &TokTrie, toks: Vec<u32>)
    requires t.inv(), toks@.len() == 2,
{
    let r = t.decode_raw(toks.as_slice());
    assert(r@.len() == 0);
}
pub proof fn must_fail_inv_contradictory(t: &TokTrie)
    requires t.inv(), t.token_offsets@.len() > 3,
{
    assert(false);
}

pub fn verif_unreachable()
    requires false,
{
}

pub proof fn lemma_ndigits_bound(n: nat)
    requires n <= u32::MAX,
    ensures 1 <= ndigits(n) <= 10,
{
    reveal_with_fuel(ndigits, 11);
}

} // verus!
fn main() {}
