// Unit builder_v: TrieBuilder::serialize_node (toktrie/src/toktree.rs) - the recursive flattening of the arena tree into the
// pre-order TrieNode array.  Termination, memory safety and the exact shape of the output (spec function `enc`).
use vstd::prelude::*;
verus! {

global size_of usize == 8;

//@@ include common/trienode.vrs
//@@ const toktrie/src/toktree.rs NO_NODE
//@@ struct toktrie/src/toktree.rs BuilderNode
//@@ struct toktrie/src/toktree.rs TrieBuilder fields=nodes

pub type Arena = Seq<BuilderNode>;

/// the arena is a finite forest: `rank` decreases along first_child and next_sibling links (ASSUMED to be what
/// TrieBuilder::insert builds: it only ever appends fresh nodes at the end of a sibling list)
pub open spec fn link_ok(a: Arena, rank: Seq<nat>, i: int) -> bool {
    &&& (a[i].first_child == NO_NODE || (a[i].first_child < a.len() && rank[a[i].first_child as int] < rank[i]))
    &&& (a[i].next_sibling == NO_NODE || (a[i].next_sibling < a.len() && rank[a[i].next_sibling as int] < rank[i]))
    &&& a[i].token_id <= 0xff_ffff
}
pub open spec fn arena_wf(a: Arena, rank: Seq<nat>) -> bool {
    &&& a.len() == rank.len()
    &&& a.len() < 0xffff_ffff
    &&& forall|i: int| 0 <= i < a.len() ==> #[trigger] link_ok(a, rank, i)
}

pub open spec fn mk_node(byte: u8, tok: u32, np: nat, size: nat) -> TrieNode {
    TrieNode { bits: (tok << 8u32) | byte as u32, bits2: ((np - 1) as u32) | ((size as u32) << 10u32) }
}

pub open spec fn chain_len(a: Arena, rank: Seq<nat>, c: u32) -> nat
    decreases (if c == NO_NODE { 0nat } else { rank[c as int] + 1 })
    when arena_wf(a, rank) && (c == NO_NODE || c < a.len())
    via chain_len_dec
{
    if c == NO_NODE { 0 } else {
        1 + chain_len(a, rank, a[c as int].next_sibling)
    }
}
#[via_fn]
proof fn chain_len_dec(a: Arena, rank: Seq<nat>, c: u32) {
    if c != NO_NODE { assert(link_ok(a, rank, c as int)); }
}

/// the serialized block of node i (called with parameter np) / of the sibling list starting at c
pub open spec fn enc(a: Arena, rank: Seq<nat>, i: int, np: nat) -> Seq<TrieNode>
    decreases rank[i], 1nat
    when arena_wf(a, rank) && 0 <= i < a.len()
    via enc_dec
{
    let kids = enc_list(a, rank, a[i].first_child, np);
    seq![mk_node(a[i].byte, a[i].token_id, if np == 0 { 1 } else { np }, 1 + kids.len())] + kids
}
pub open spec fn enc_list(a: Arena, rank: Seq<nat>, c: u32, np: nat) -> Seq<TrieNode>
    decreases (if c == NO_NODE { 0nat } else { rank[c as int] + 1 }), 0nat
    when arena_wf(a, rank) && (c == NO_NODE || c < a.len())
    via enc_list_dec
{
    if c == NO_NODE { Seq::empty() } else {
        enc(a, rank, c as int, if a[c as int].next_sibling == NO_NODE { np + 1 } else { 1 })
            + enc_list(a, rank, a[c as int].next_sibling, np)
    }
}

#[via_fn]
proof fn enc_dec(a: Arena, rank: Seq<nat>, i: int, np: nat) {
    assert(link_ok(a, rank, i));
}
#[via_fn]
proof fn enc_list_dec(a: Arena, rank: Seq<nat>, c: u32, np: nat) {
    if c != NO_NODE { assert(link_ok(a, rank, c as int)); }
}

/// "no assert! of the recursion fires": parent counts <= 1024 and subtree sizes < 2^22 (the documented format limits)
pub open spec fn fits(a: Arena, rank: Seq<nat>, i: int, np: nat) -> bool
    decreases rank[i], 1nat
    when arena_wf(a, rank) && 0 <= i < a.len()
    via fits_dec
{
    np <= 1024 && enc(a, rank, i, np).len() < 0x40_0000 && fits_list(a, rank, a[i].first_child, np)
}
pub open spec fn fits_list(a: Arena, rank: Seq<nat>, c: u32, np: nat) -> bool
    decreases (if c == NO_NODE { 0nat } else { rank[c as int] + 1 }), 0nat
    when arena_wf(a, rank) && (c == NO_NODE || c < a.len())
    via fits_list_dec
{
    if c == NO_NODE { true } else {
        fits(a, rank, c as int, if a[c as int].next_sibling == NO_NODE { np + 1 } else { 1 })
            && fits_list(a, rank, a[c as int].next_sibling, np)
    }
}

#[via_fn]
proof fn fits_dec(a: Arena, rank: Seq<nat>, i: int, np: nat) {
    assert(link_ok(a, rank, i));
}
#[via_fn]
proof fn fits_list_dec(a: Arena, rank: Seq<nat>, c: u32, np: nat) {
    if c != NO_NODE { assert(link_ok(a, rank, c as int)); }
}

/// the rank function of a well-founded arena (any witness; `enc` does not depend on the choice, only its termination does)
pub open spec fn rk(a: Arena) -> Seq<nat> { choose|r: Seq<nat>| arena_wf(a, r) }
pub open spec fn wf_arena(a: Arena) -> bool { arena_wf(a, rk(a)) }

pub proof fn lemma_chain_le(a: Arena, rank: Seq<nat>, c: u32, np: nat)
    requires arena_wf(a, rank), c == NO_NODE || c < a.len(),
    ensures chain_len(a, rank, c) <= enc_list(a, rank, c, np).len(),
        (chain_len(a, rank, c) == 0) == (c == NO_NODE),
    decreases (if c == NO_NODE { 0nat } else { rank[c as int] + 1 })
{
    if c != NO_NODE {
        assert(link_ok(a, rank, c as int));
        lemma_chain_le(a, rank, a[c as int].next_sibling, np);
        let npc: nat = if a[c as int].next_sibling == NO_NODE { np + 1 } else { 1 };
        assert(enc(a, rank, c as int, npc).len() >= 1);
    }
}

impl TrieBuilder {
//@@ fn toktrie/src/toktree.rs TrieBuilder::serialize_node
//@ rewrite R8 :: let mut num_ch = 0; ==> let mut num_ch: i32 = 0;
//@ spec
    requires
        wf_arena(self.nodes@), node_idx < self.nodes@.len(),
        fits(self.nodes@, rk(self.nodes@), node_idx as int, num_parents as nat),
    ensures
        final(data)@ == old(data)@ + enc(self.nodes@, rk(self.nodes@), node_idx as int, num_parents as nat),
    decreases rk(self.nodes@)[node_idx as int],
//@ body_start
    let ghost a = self.nodes@;
    let ghost r = rk(a);
    let ghost np = num_parents as nat;
    let ghost ni = node_idx as int;
    let ghost d0 = data@;
    proof {
        assert(arena_wf(a, r));
        assert(link_ok(a, r, ni));
        lemma_chain_le(a, r, a[ni].first_child, np);
        assert(np <= 1024 && enc(a, r, ni, np).len() < 0x40_0000 && fits_list(a, r, a[ni].first_child, np));
    }
//@ loop 1
    invariant
        a == self.nodes@, r == rk(a), arena_wf(a, r), ni == node_idx, ni < a.len(), *node == a[ni],
        child == NO_NODE || child < a.len(),
        num_ch >= 0, num_ch + chain_len(a, r, child) == chain_len(a, r, a[ni].first_child),
        chain_len(a, r, a[ni].first_child) < 0x40_0000,
    decreases (if child == NO_NODE { 0nat } else { r[child as int] + 1 }),
//@ after num_ch += 1;
    proof { assert(link_ok(a, r, child as int)); }
//@ before let mut child = node.first_child; #2
    let ghost pre = data@[idx as int];
    proof {
        assert(data@ == d0 + seq![pre]);
        assert(enc_list(a, r, a[ni].first_child, np) == Seq::<TrieNode>::empty() + enc_list(a, r, a[ni].first_child, np));
    }
//@ loop 2
    invariant
        a == self.nodes@, r == rk(a), arena_wf(a, r), ni == node_idx, ni < a.len(), *node == a[ni], np == num_parents,
        idx == d0.len(), num_parents <= 1024,
        child == NO_NODE || (child < a.len() && r[child as int] < r[ni]),
        num_ch == chain_len(a, r, child),
        fits_list(a, r, child, np),
        data@.len() >= idx + 1,
        data@.subrange(0, idx + 1) == d0 + seq![pre],
        data@.subrange(idx + 1, data@.len() as int) + enc_list(a, r, child, np) == enc_list(a, r, a[ni].first_child, np),
    decreases (if child == NO_NODE { 0nat } else { r[child as int] + 1 }),
//@ before num_ch -= 1;
    let ghost dk = data@;
    let ghost c0 = child;
    proof {
        assert(link_ok(a, r, c0 as int));
        lemma_chain_le(a, r, a[c0 as int].next_sibling, np);
    }
//@ after child = self.nodes[child as usize].next_sibling; #2
    proof {
        let npc: nat = if a[c0 as int].next_sibling == NO_NODE { np + 1 } else { 1 };
        assert(data@ == dk + enc(a, r, c0 as int, npc));
        let done0 = dk.subrange(idx + 1, dk.len() as int);
        let done1 = data@.subrange(idx + 1, data@.len() as int);
        assert(done1 =~= done0 + enc(a, r, c0 as int, npc));
        assert(data@.subrange(0, idx + 1) =~= dk.subrange(0, idx + 1));
        assert(enc_list(a, r, c0, np) == enc(a, r, c0 as int, npc) + enc_list(a, r, a[c0 as int].next_sibling, np));
        assert(done1 + enc_list(a, r, child, np) =~= done0 + enc_list(a, r, c0, np));
    }
//@ before let subtree_size = data.len() - idx;
    proof {
        let kids = enc_list(a, r, a[ni].first_child, np);
        assert(data@.subrange(idx + 1, data@.len() as int) =~= kids);
        assert(data@.len() == idx + 1 + kids.len());
        assert(enc(a, r, ni, np).len() == 1 + kids.len());
    }
//@ after let subtree_size = data.len() - idx;
    let ghost dz = data@;
//@ body_end
    proof {
        let kids = enc_list(a, r, a[ni].first_child, np);
        let npe: nat = if np == 0 { 1 } else { np };
        let x: u32 = (npe - 1) as u32;
        let sz: u32 = subtree_size as u32;
        assert(((x & 0x3ffu32) | (sz << 10u32)) == (x | (sz << 10u32))) by (bit_vector) requires x < 1024u32;
        assert(dz.subrange(0, idx + 1) == d0 + seq![pre]);
        assert(dz[idx as int] == pre);
        assert(data@.len() == dz.len());
        assert(forall|k: int| 0 <= k < dz.len() && k != idx ==> data@[k] == dz[k]);
        assert(data@[idx as int].bits == pre.bits);
        assert(data@[idx as int] == mk_node(a[ni].byte, a[ni].token_id, npe, (1 + kids.len()) as nat));
        let want = d0 + enc(a, r, ni, np);
        assert(want.len() == data@.len());
        assert forall|k: int| 0 <= k < data@.len() implies data@[k] == want[k] by {
            if k < idx {
                assert(dz.subrange(0, idx + 1)[k] == d0[k]);
            } else if k > idx {
                assert(dz.subrange(idx + 1, dz.len() as int)[k - idx - 1] == kids[k - idx - 1]);
            }
        }
        assert(data@ =~= want);
    }
//@ end
}

} // verus!
fn main() {}
