// Unit builder_v: TrieBuilder::serialize_node (toktrie/src/toktree.rs) - the recursive flattening of the arena tree into the
// pre-order TrieNode array.  Termination, memory safety and the exact shape of the output (spec function `enc`).
use vstd::prelude::*;
verus! {

global size_of usize == 8;

//@@ include common/trienode.vrs
//@@ include common/triewf.vrs
//@@ const toktrie/src/toktree.rs NO_NODE
//@@ struct toktrie/src/toktree.rs BuilderNode
//@@ struct toktrie/src/toktree.rs TrieBuilder

pub type Arena = Seq<BuilderNode>;

/// the arena is a finite forest: `rank` decreases along first_child and next_sibling links (ASSUMED to be what
/// TrieBuilder::insert builds: it only ever appends fresh nodes at the end of a sibling list)
pub open spec fn link_ok(a: Arena, rank: Seq<nat>, i: int) -> bool {
    &&& (a[i].first_child == NO_NODE || (a[i].first_child < a.len() && rank[a[i].first_child as int] < rank[i]))
    &&& (a[i].next_sibling == NO_NODE || (a[i].next_sibling < a.len() && rank[a[i].next_sibling as int] < rank[i]))
    &&& a[i].token_id <= 0xff_ffff
}
pub open spec fn arena_wf(a: Arena, rank: Seq<nat>) -> bool {
    &&& a.len() == rank.len()
    &&& a.len() < 0xffff_ffff
    &&& forall|i: int| 0 <= i < a.len() ==> #[trigger] link_ok(a, rank, i)
}

pub open spec fn mk_node(byte: u8, tok: u32, np: nat, size: nat) -> TrieNode {
    TrieNode { bits: (tok << 8u32) | byte as u32, bits2: ((np - 1) as u32) | ((size as u32) << 10u32) }
}

pub open spec fn chain_len(a: Arena, rank: Seq<nat>, c: u32) -> nat
    decreases (if c == NO_NODE { 0nat } else { rank[c as int] + 1 })
    when arena_wf(a, rank) && (c == NO_NODE || c < a.len())
    via chain_len_dec
{
    if c == NO_NODE { 0 } else {
        1 + chain_len(a, rank, a[c as int].next_sibling)
    }
}
#[via_fn]
proof fn chain_len_dec(a: Arena, rank: Seq<nat>, c: u32) {
    if c != NO_NODE { assert(link_ok(a, rank, c as int)); }
}

/// the serialized block of node i (called with parameter np) / of the sibling list starting at c
pub open spec fn enc(a: Arena, rank: Seq<nat>, i: int, np: nat) -> Seq<TrieNode>
    decreases rank[i], 1nat
    when arena_wf(a, rank) && 0 <= i < a.len()
    via enc_dec
{
    let kids = enc_list(a, rank, a[i].first_child, np);
    seq![mk_node(a[i].byte, a[i].token_id, if np == 0 { 1 } else { np }, 1 + kids.len())] + kids
}
pub open spec fn enc_list(a: Arena, rank: Seq<nat>, c: u32, np: nat) -> Seq<TrieNode>
    decreases (if c == NO_NODE { 0nat } else { rank[c as int] + 1 }), 0nat
    when arena_wf(a, rank) && (c == NO_NODE || c < a.len())
    via enc_list_dec
{
    if c == NO_NODE { Seq::empty() } else {
        enc(a, rank, c as int, if a[c as int].next_sibling == NO_NODE { np + 1 } else { 1 })
            + enc_list(a, rank, a[c as int].next_sibling, np)
    }
}

#[via_fn]
proof fn enc_dec(a: Arena, rank: Seq<nat>, i: int, np: nat) {
    assert(link_ok(a, rank, i));
}
#[via_fn]
proof fn enc_list_dec(a: Arena, rank: Seq<nat>, c: u32, np: nat) {
    if c != NO_NODE { assert(link_ok(a, rank, c as int)); }
}

/// "no assert! of the recursion fires": parent counts <= 1024 and subtree sizes < 2^22 (the documented format limits)
pub open spec fn fits(a: Arena, rank: Seq<nat>, i: int, np: nat) -> bool
    decreases rank[i], 1nat
    when arena_wf(a, rank) && 0 <= i < a.len()
    via fits_dec
{
    np <= 1024 && enc(a, rank, i, np).len() < 0x40_0000 && fits_list(a, rank, a[i].first_child, np)
}
pub open spec fn fits_list(a: Arena, rank: Seq<nat>, c: u32, np: nat) -> bool
    decreases (if c == NO_NODE { 0nat } else { rank[c as int] + 1 }), 0nat
    when arena_wf(a, rank) && (c == NO_NODE || c < a.len())
    via fits_list_dec
{
    if c == NO_NODE { true } else {
        fits(a, rank, c as int, if a[c as int].next_sibling == NO_NODE { np + 1 } else { 1 })
            && fits_list(a, rank, a[c as int].next_sibling, np)
    }
}

#[via_fn]
proof fn fits_dec(a: Arena, rank: Seq<nat>, i: int, np: nat) {
    assert(link_ok(a, rank, i));
}
#[via_fn]
proof fn fits_list_dec(a: Arena, rank: Seq<nat>, c: u32, np: nat) {
    if c != NO_NODE { assert(link_ok(a, rank, c as int)); }
}

/// the rank function of a well-founded arena (any witness; `enc` does not depend on the choice, only its termination does)
pub open spec fn rk(a: Arena) -> Seq<nat> { choose|r: Seq<nat>| arena_wf(a, r) }
pub open spec fn wf_arena(a: Arena) -> bool { arena_wf(a, rk(a)) }

pub proof fn lemma_chain_le(a: Arena, rank: Seq<nat>, c: u32, np: nat)
    requires arena_wf(a, rank), c == NO_NODE || c < a.len(),
    ensures chain_len(a, rank, c) <= enc_list(a, rank, c, np).len(),
        (chain_len(a, rank, c) == 0) == (c == NO_NODE),
    decreases (if c == NO_NODE { 0nat } else { rank[c as int] + 1 })
{
    if c != NO_NODE {
        assert(link_ok(a, rank, c as int));
        lemma_chain_le(a, rank, a[c as int].next_sibling, np);
        let npc: nat = if a[c as int].next_sibling == NO_NODE { np + 1 } else { 1 };
        assert(enc(a, rank, c as int, npc).len() >= 1);
    }
}

/// representation invariant of the builder: a well-founded arena, every stored index valid
pub open spec fn idx_ok(a: Arena, i: int) -> bool { a[i].last_child == NO_NODE || a[i].last_child < a.len() }
pub open spec fn rc_ok(rc: Seq<u32>, n: int, b: int) -> bool { rc[b] == NO_NODE || rc[b] < n }
pub open spec fn binv(t: &TrieBuilder) -> bool {
    &&& wf_arena(t.nodes@)
    &&& t.nodes@.len() >= 1
    &&& forall|i: int| 0 <= i < t.nodes@.len() ==> #[trigger] idx_ok(t.nodes@, i)
    &&& forall|b: int| 0 <= b < 256 ==> #[trigger] rc_ok(t.root_children@, t.nodes@.len() as int, b)
}

/// appending a fresh leaf and linking it from earlier nodes keeps the arena well-founded: shift every old rank by one
pub proof fn lemma_wf_after_links(a0: Arena, a1: Arena, r0: Seq<nat>)
    requires arena_wf(a0, r0), a1.len() == a0.len() + 1, a1.len() < 0xffff_ffff,
        a1[a0.len() as int].first_child == NO_NODE, a1[a0.len() as int].next_sibling == NO_NODE, a1[a0.len() as int].token_id <= 0xff_ffff,
        forall|i: int| 0 <= i < a0.len() ==> (#[trigger] a1[i]).token_id <= 0xff_ffff
            && (a1[i].first_child == a0[i].first_child || a1[i].first_child == a0.len())
            && (a1[i].next_sibling == a0[i].next_sibling || a1[i].next_sibling == a0.len()),
    ensures exists|r1: Seq<nat>| arena_wf(a1, r1),
{
    let r1 = Seq::new(a1.len(), |i: int| if i < a0.len() { r0[i] + 1 } else { 0nat });
    assert forall|i: int| 0 <= i < a1.len() implies #[trigger] link_ok(a1, r1, i) by {
        if i < a0.len() { assert(link_ok(a0, r0, i)); }
    }
    assert(arena_wf(a1, r1));
}
pub proof fn lemma_wf_token_update(a0: Arena, a1: Arena, r0: Seq<nat>)
    requires arena_wf(a0, r0), a1.len() == a0.len(),
        forall|i: int| 0 <= i < a0.len() ==> (#[trigger] a1[i]).token_id <= 0xff_ffff
            && a1[i].first_child == a0[i].first_child && a1[i].next_sibling == a0[i].next_sibling,
    ensures arena_wf(a1, r0),
{
    assert forall|i: int| 0 <= i < a1.len() implies #[trigger] link_ok(a1, r0, i) by { assert(link_ok(a0, r0, i)); }
}

impl TrieBuilder {
//@@ fn toktrie/src/toktree.rs TrieBuilder::new
//@ ret r
//@ spec
    ensures binv(&r), r.nodes@.len() == 1,
//@ before builder #3
    proof {
        let a = builder.nodes@;
        let r0: Seq<nat> = seq![0nat];
        assert(NO_TOKEN == 0xff_ffffu32);
        assert(link_ok(a, r0, 0));
        assert(arena_wf(a, r0));
        assert forall|i: int| 0 <= i < a.len() implies #[trigger] idx_ok(a, i) by { }
        assert forall|b: int| 0 <= b < 256 implies #[trigger] rc_ok(builder.root_children@, 1, b) by { }
    }
//@ end

//@@ fn toktrie/src/toktree.rs TrieBuilder::insert
//@ rewrite R7 :: for (i, &byte) in word.iter().enumerate() { ==> for i in 0..word.len() { let byte = word[i];
//@ spec
    requires binv(old(self)), token_id <= 0xff_ffff,
        old(self).nodes@.len() + word@.len() < 0xffff_fff0,
        word@.len() == 0 ==> old(self).nodes@[0].token_id == NO_TOKEN, // (the code asserts it: one empty entry at most)
    ensures binv(final(self)), final(self).nodes@.len() <= old(self).nodes@.len() + word@.len(),
//@ body_start
    let ghost n0 = self.nodes@.len();
    let ghost ae = self.nodes@;
//@ after self.nodes[0].token_id = token_id;
    proof {
        let a1 = self.nodes@;
        assert forall|k: int| 0 <= k < ae.len() implies (#[trigger] a1[k]).token_id <= 0xff_ffff
            && a1[k].first_child == ae[k].first_child && a1[k].next_sibling == ae[k].next_sibling by {
            assert(link_ok(ae, rk(ae), k));
        }
        lemma_wf_token_update(ae, a1, rk(ae));
        assert(wf_arena(a1));
        assert forall|k: int| 0 <= k < a1.len() implies #[trigger] idx_ok(a1, k) by { assert(idx_ok(ae, k)); }
    }
//@ loop 1
    invariant
        binv(self), curr_node_idx < self.nodes@.len(), token_id <= 0xff_ffff,
        n0 + word@.len() < 0xffff_fff0, self.nodes@.len() <= n0 + i,
//@ loop 2
    invariant
        binv(self), curr_node_idx < self.nodes@.len(), child_idx == NO_NODE || child_idx < self.nodes@.len(),
    decreases (if child_idx == NO_NODE { 0nat } else { rk(self.nodes@)[child_idx as int] + 1 }),
//@ before let mut child_idx = self.nodes[curr_node_idx].first_child;
    proof { assert(arena_wf(self.nodes@, rk(self.nodes@))); assert(link_ok(self.nodes@, rk(self.nodes@), curr_node_idx as int)); }
//@ before child_idx = child_node.next_sibling;
    proof { assert(link_ok(self.nodes@, rk(self.nodes@), child_idx as int)); }
//@ before let root_child_idx = self.root_children[byte as usize];
    proof { assert(rc_ok(self.root_children@, self.nodes@.len() as int, byte as int)); }
//@ before let new_node_idx = self.nodes.len() as u32;
    let ghost a0 = self.nodes@;
    let ghost rc0 = self.root_children@;
    proof { assert(idx_ok(a0, curr_node_idx as int)); }
//@ before curr_node_idx = new_node_idx as usize;
    proof {
        let a1 = self.nodes@;
        assert(a1.len() == a0.len() + 1);
        assert forall|k: int| 0 <= k < a0.len() implies (#[trigger] a1[k]).token_id <= 0xff_ffff
            && (a1[k].first_child == a0[k].first_child || a1[k].first_child == a0.len())
            && (a1[k].next_sibling == a0[k].next_sibling || a1[k].next_sibling == a0.len()) by {
            assert(link_ok(a0, rk(a0), k));
        }
        lemma_wf_after_links(a0, a1, rk(a0));
        assert(wf_arena(a1));
        assert forall|k: int| 0 <= k < a1.len() implies #[trigger] idx_ok(a1, k) by {
            if k < a0.len() { assert(idx_ok(a0, k)); }
        }
        assert forall|b: int| 0 <= b < 256 implies #[trigger] rc_ok(self.root_children@, a1.len() as int, b) by {
            assert(rc_ok(rc0, a0.len() as int, b));
        }
    }
//@ before self.nodes[curr_node_idx].token_id = token_id;
    let ghost az = self.nodes@;
//@ body_end
    proof {
        if word@.len() > 0 {
            let a1 = self.nodes@;
            assert forall|k: int| 0 <= k < az.len() implies (#[trigger] a1[k]).token_id <= 0xff_ffff
                && a1[k].first_child == az[k].first_child && a1[k].next_sibling == az[k].next_sibling by {
                assert(link_ok(az, rk(az), k));
            }
            lemma_wf_token_update(az, a1, rk(az));
            assert(wf_arena(a1));
            assert forall|k: int| 0 <= k < a1.len() implies #[trigger] idx_ok(a1, k) by { assert(idx_ok(az, k)); }
        }
    }
//@ end

//@@ fn toktrie/src/toktree.rs TrieBuilder::serialize_node
//@ rewrite R8 :: let mut num_ch = 0; ==> let mut num_ch: i32 = 0;
//@ spec
    requires
        wf_arena(self.nodes@), node_idx < self.nodes@.len(),
        fits(self.nodes@, rk(self.nodes@), node_idx as int, num_parents as nat),
    ensures
        final(data)@ == old(data)@ + enc(self.nodes@, rk(self.nodes@), node_idx as int, num_parents as nat),
    decreases rk(self.nodes@)[node_idx as int],
//@ body_start
    let ghost a = self.nodes@;
    let ghost r = rk(a);
    let ghost np = num_parents as nat;
    let ghost ni = node_idx as int;
    let ghost d0 = data@;
    proof {
        assert(arena_wf(a, r));
        assert(link_ok(a, r, ni));
        lemma_chain_le(a, r, a[ni].first_child, np);
        assert(np <= 1024 && enc(a, r, ni, np).len() < 0x40_0000 && fits_list(a, r, a[ni].first_child, np));
    }
//@ loop 1
    invariant
        a == self.nodes@, r == rk(a), arena_wf(a, r), ni == node_idx, ni < a.len(), *node == a[ni],
        child == NO_NODE || child < a.len(),
        num_ch >= 0, num_ch + chain_len(a, r, child) == chain_len(a, r, a[ni].first_child),
        chain_len(a, r, a[ni].first_child) < 0x40_0000,
    decreases (if child == NO_NODE { 0nat } else { r[child as int] + 1 }),
//@ after num_ch += 1;
    proof { assert(link_ok(a, r, child as int)); }
//@ before let mut child = node.first_child; #2
    let ghost pre = data@[idx as int];
    proof {
        assert(data@ == d0 + seq![pre]);
        assert(enc_list(a, r, a[ni].first_child, np) == Seq::<TrieNode>::empty() + enc_list(a, r, a[ni].first_child, np));
    }
//@ loop 2
    invariant
        a == self.nodes@, r == rk(a), arena_wf(a, r), ni == node_idx, ni < a.len(), *node == a[ni], np == num_parents,
        idx == d0.len(), num_parents <= 1024,
        child == NO_NODE || (child < a.len() && r[child as int] < r[ni]),
        num_ch == chain_len(a, r, child),
        fits_list(a, r, child, np),
        data@.len() >= idx + 1,
        data@.subrange(0, idx + 1) == d0 + seq![pre],
        data@.subrange(idx + 1, data@.len() as int) + enc_list(a, r, child, np) == enc_list(a, r, a[ni].first_child, np),
    decreases (if child == NO_NODE { 0nat } else { r[child as int] + 1 }),
//@ before num_ch -= 1;
    let ghost dk = data@;
    let ghost c0 = child;
    proof {
        assert(link_ok(a, r, c0 as int));
        lemma_chain_le(a, r, a[c0 as int].next_sibling, np);
    }
//@ after child = self.nodes[child as usize].next_sibling; #2
    proof {
        let npc: nat = if a[c0 as int].next_sibling == NO_NODE { np + 1 } else { 1 };
        assert(data@ == dk + enc(a, r, c0 as int, npc));
        let done0 = dk.subrange(idx + 1, dk.len() as int);
        let done1 = data@.subrange(idx + 1, data@.len() as int);
        assert(done1 =~= done0 + enc(a, r, c0 as int, npc));
        assert(data@.subrange(0, idx + 1) =~= dk.subrange(0, idx + 1));
        assert(enc_list(a, r, c0, np) == enc(a, r, c0 as int, npc) + enc_list(a, r, a[c0 as int].next_sibling, np));
        assert(done1 + enc_list(a, r, child, np) =~= done0 + enc_list(a, r, c0, np));
    }
//@ before let subtree_size = data.len() - idx;
    proof {
        let kids = enc_list(a, r, a[ni].first_child, np);
        assert(data@.subrange(idx + 1, data@.len() as int) =~= kids);
        assert(data@.len() == idx + 1 + kids.len());
        assert(enc(a, r, ni, np).len() == 1 + kids.len());
    }
//@ after let subtree_size = data.len() - idx;
    let ghost dz = data@;
//@ body_end
    proof {
        let kids = enc_list(a, r, a[ni].first_child, np);
        let npe: nat = if np == 0 { 1 } else { np };
        let x: u32 = (npe - 1) as u32;
        let sz: u32 = subtree_size as u32;
        assert(((x & 0x3ffu32) | (sz << 10u32)) == (x | (sz << 10u32))) by (bit_vector) requires x < 1024u32;
        assert(dz.subrange(0, idx + 1) == d0 + seq![pre]);
        assert(dz[idx as int] == pre);
        assert(data@.len() == dz.len());
        assert(forall|k: int| 0 <= k < dz.len() && k != idx ==> data@[k] == dz[k]);
        assert(data@[idx as int].bits == pre.bits);
        assert(data@[idx as int] == mk_node(a[ni].byte, a[ni].token_id, npe, (1 + kids.len()) as nat));
        let want = d0 + enc(a, r, ni, np);
        assert(want.len() == data@.len());
        assert forall|k: int| 0 <= k < data@.len() implies data@[k] == want[k] by {
            if k < idx {
                assert(dz.subrange(0, idx + 1)[k] == d0[k]);
            } else if k > idx {
                assert(dz.subrange(idx + 1, dz.len() as int)[k - idx - 1] == kids[k - idx - 1]);
            }
        }
        assert(data@ =~= want);
    }
//@ end
}


// ================================================================ enc(root) satisfies TrieWf
// (removes "TrieBuilder::serialize establishes TrieWf" from the assumptions of unit walk_v; what remains assumed is that
//  TrieBuilder::insert builds a well-founded arena whose token ids are below the vocabulary size)

pub open spec fn encd(a: Arena, rank: Seq<nat>, i: int, dep: nat) -> Seq<nat>
    decreases rank[i], 1nat
    when arena_wf(a, rank) && 0 <= i < a.len()
    via encd_dec
{
    seq![dep] + encd_list(a, rank, a[i].first_child, dep + 1)
}
pub open spec fn encd_list(a: Arena, rank: Seq<nat>, c: u32, dep: nat) -> Seq<nat>
    decreases (if c == NO_NODE { 0nat } else { rank[c as int] + 1 }), 0nat
    when arena_wf(a, rank) && (c == NO_NODE || c < a.len())
    via encd_list_dec
{
    if c == NO_NODE { Seq::empty() } else {
        encd(a, rank, c as int, dep) + encd_list(a, rank, a[c as int].next_sibling, dep)
    }
}
#[via_fn]
proof fn encd_dec(a: Arena, rank: Seq<nat>, i: int, dep: nat) {
    assert(link_ok(a, rank, i));
}
#[via_fn]
proof fn encd_list_dec(a: Arena, rank: Seq<nat>, c: u32, dep: nat) {
    if c != NO_NODE { assert(link_ok(a, rank, c as int)); }
}

pub open spec fn b_size(b: Seq<TrieNode>, j: int) -> bool { nsize(b[j]) >= 1 && j + nsize(b[j]) <= b.len() }
pub open spec fn b_step(d: Seq<nat>, j: int) -> bool { d[j] <= d[j - 1] + 1 }
pub open spec fn b_deeper(b: Seq<TrieNode>, d: Seq<nat>, j: int, k: int) -> bool { (j < k < j + nsize(b[j])) ==> d[k] > d[j] }
pub open spec fn b_next(b: Seq<TrieNode>, d: Seq<nat>, j: int) -> bool { (j + nsize(b[j]) < b.len()) ==> d[j + nsize(b[j])] <= d[j] }
pub open spec fn b_np(b: Seq<TrieNode>, d: Seq<nat>, x: nat, j: int) -> bool {
    nparents(b[j]) == d[j] - (if j + nsize(b[j]) < b.len() { d[j + nsize(b[j])] } else { x }) + 1
}
pub open spec fn b_ge(d: Seq<nat>, dep: nat, j: int) -> bool { d[j] >= dep }
pub open spec fn b_gt(d: Seq<nat>, dep: nat, j: int) -> bool { d[j] > dep }

/// clauses shared by a block (one subtree) and a list of sibling blocks; x = depth of whatever follows
pub open spec fn inner(b: Seq<TrieNode>, d: Seq<nat>, x: nat, dep: nat, vocab: u32) -> bool {
    &&& b.len() == d.len()
    &&& forall|j: int| 0 <= j < b.len() ==> #[trigger] b_size(b, j)
    &&& forall|j: int| 1 <= j < b.len() ==> #[trigger] b_step(d, j)
    &&& forall|j: int, k: int| 0 <= j < b.len() && 0 <= k < b.len() ==> #[trigger] b_deeper(b, d, j, k)
    &&& forall|j: int| 0 <= j < b.len() ==> #[trigger] b_next(b, d, j)
    &&& forall|j: int| 0 <= j < b.len() ==> #[trigger] b_np(b, d, x, j)
    &&& forall|j: int| 0 <= j < b.len() ==> #[trigger] tok_ok(b, j, vocab)
    &&& forall|j: int| 0 <= j < b.len() ==> #[trigger] b_ge(d, dep, j)
}
pub open spec fn lst(b: Seq<TrieNode>, d: Seq<nat>, dep: nat, x: nat, vocab: u32) -> bool {
    inner(b, d, x, dep, vocab) && (b.len() > 0 ==> d[0] == dep)
}
pub open spec fn blk(b: Seq<TrieNode>, d: Seq<nat>, dep: nat, x: nat, vocab: u32) -> bool {
    &&& inner(b, d, x, dep, vocab)
    &&& b.len() >= 1
    &&& d[0] == dep
    &&& nsize(b[0]) == b.len()
    &&& forall|k: int| 1 <= k < b.len() ==> #[trigger] b_gt(d, dep, k)
}

pub proof fn lemma_mk_node(byte: u8, tok: u32, np: nat, size: nat)
    requires 1 <= np <= 1024, size < 0x40_0000, tok <= 0xff_ffff,
    ensures nbyte(mk_node(byte, tok, np, size)) == byte, ntok(mk_node(byte, tok, np, size)) == tok,
        nparents(mk_node(byte, tok, np, size)) == np, nsize(mk_node(byte, tok, np, size)) == size,
{
    let x: u32 = (np - 1) as u32;
    let sz: u32 = size as u32;
    assert((((tok << 8u32) | (byte as u32)) & 0xffu32) as u8 == byte) by (bit_vector) requires tok <= 0xff_ffffu32;
    assert(((tok << 8u32) | (byte as u32)) >> 8u32 == tok) by (bit_vector) requires tok <= 0xff_ffffu32;
    assert(((x | (sz << 10u32)) >> 10u32) == sz && ((x | (sz << 10u32)) & 0x3ffu32) == x) by (bit_vector) requires x < 1024u32, sz < 0x40_0000u32;
}

/// a non-last sibling block followed by the rest of the sibling list
pub proof fn lemma_cons(b1: Seq<TrieNode>, d1: Seq<nat>, l2: Seq<TrieNode>, dl2: Seq<nat>, dep: nat, x: nat, vocab: u32)
    requires blk(b1, d1, dep, dep, vocab), lst(l2, dl2, dep, x, vocab), l2.len() > 0, x <= dep,
    ensures lst(b1 + l2, d1 + dl2, dep, x, vocab),
{
    let b = b1 + l2;
    let d = d1 + dl2;
    let n1 = b1.len() as int;
    assert forall|j: int| 0 <= j < b.len() implies #[trigger] b_size(b, j) by {
        if j < n1 { assert(b_size(b1, j)); } else { assert(b_size(l2, j - n1)); }
    }
    assert forall|j: int| 1 <= j < b.len() implies #[trigger] b_step(d, j) by {
        if j < n1 { assert(b_step(d1, j)); }
        else if j == n1 { assert(b_ge(d1, dep, n1 - 1)); }
        else { assert(b_step(dl2, j - n1)); }
    }
    assert forall|j: int, k: int| 0 <= j < b.len() && 0 <= k < b.len() implies #[trigger] b_deeper(b, d, j, k) by {
        if j < n1 {
            assert(b_size(b1, j));
            if k < n1 { assert(b_deeper(b1, d1, j, k)); }
        } else if k >= n1 {
            assert(b_deeper(l2, dl2, j - n1, k - n1));
        }
    }
    assert forall|j: int| 0 <= j < b.len() implies #[trigger] b_next(b, d, j) by {
        if j < n1 {
            assert(b_size(b1, j)); assert(b_next(b1, d1, j)); assert(b_ge(d1, dep, j));
        } else {
            assert(b_size(l2, j - n1)); assert(b_next(l2, dl2, j - n1));
        }
    }
    assert forall|j: int| 0 <= j < b.len() implies #[trigger] b_np(b, d, x, j) by {
        if j < n1 {
            assert(b_size(b1, j)); assert(b_np(b1, d1, dep, j));
        } else {
            assert(b_size(l2, j - n1)); assert(b_np(l2, dl2, x, j - n1));
        }
    }
    assert forall|j: int| 0 <= j < b.len() implies #[trigger] tok_ok(b, j, vocab) by {
        if j < n1 { assert(tok_ok(b1, j, vocab)); } else { assert(tok_ok(l2, j - n1, vocab)); }
    }
    assert forall|j: int| 0 <= j < b.len() implies #[trigger] b_ge(d, dep, j) by {
        if j < n1 { assert(b_ge(d1, dep, j)); } else { assert(b_ge(dl2, dep, j - n1)); }
    }
}

/// a node followed by the list of its children blocks is a block
pub proof fn lemma_node(n: TrieNode, l: Seq<TrieNode>, dl: Seq<nat>, dep: nat, x: nat, vocab: u32)
    requires lst(l, dl, dep + 1, x, vocab), 1 <= x <= dep,
        nsize(n) == 1 + l.len(), nparents(n) == dep - x + 1, ntok(n) == NO_TOKEN || ntok(n) < vocab,
    ensures blk(seq![n] + l, seq![dep] + dl, dep, x, vocab),
{
    let b = seq![n] + l;
    let d = seq![dep] + dl;
    assert forall|j: int| 0 <= j < b.len() implies #[trigger] b_size(b, j) by {
        if j >= 1 { assert(b_size(l, j - 1)); }
    }
    assert forall|j: int| 1 <= j < b.len() implies #[trigger] b_step(d, j) by {
        if j >= 2 { assert(b_step(dl, j - 1)); }
    }
    assert forall|j: int, k: int| 0 <= j < b.len() && 0 <= k < b.len() implies #[trigger] b_deeper(b, d, j, k) by {
        if j == 0 { if k >= 1 { assert(b_ge(dl, dep + 1, k - 1)); } }
        else if k >= 1 { assert(b_deeper(l, dl, j - 1, k - 1)); }
    }
    assert forall|j: int| 0 <= j < b.len() implies #[trigger] b_next(b, d, j) by {
        if j >= 1 { assert(b_size(l, j - 1)); assert(b_next(l, dl, j - 1)); }
    }
    assert forall|j: int| 0 <= j < b.len() implies #[trigger] b_np(b, d, x, j) by {
        if j >= 1 { assert(b_size(l, j - 1)); assert(b_np(l, dl, x, j - 1)); }
    }
    assert forall|j: int| 0 <= j < b.len() implies #[trigger] tok_ok(b, j, vocab) by {
        if j >= 1 { assert(tok_ok(l, j - 1, vocab)); }
    }
    assert forall|j: int| 0 <= j < b.len() implies #[trigger] b_ge(d, dep, j) by {
        if j >= 1 { assert(b_ge(dl, dep + 1, j - 1)); }
    }
    assert forall|k: int| 1 <= k < b.len() implies #[trigger] b_gt(d, dep, k) by {
        assert(b_ge(dl, dep + 1, k - 1));
    }
}

pub open spec fn arena_toks_ok(a: Arena, vocab: u32) -> bool {
    forall|i: int| 0 <= i < a.len() ==> ((#[trigger] a[i]).token_id == NO_TOKEN || a[i].token_id < vocab)
}

/// block of node i at depth dep with exit depth x (called with np = dep - x + 1 >= 1)
pub proof fn lemma_enc_blk(a: Arena, rank: Seq<nat>, i: int, dep: nat, x: nat, vocab: u32)
    requires arena_wf(a, rank), 0 <= i < a.len(), 1 <= x <= dep, arena_toks_ok(a, vocab),
        fits(a, rank, i, (dep - x + 1) as nat),
    ensures blk(enc(a, rank, i, (dep - x + 1) as nat), encd(a, rank, i, dep), dep, x, vocab),
    decreases rank[i], 1nat
{
    let np: nat = (dep - x + 1) as nat;
    assert(link_ok(a, rank, i));
    let kids = enc_list(a, rank, a[i].first_child, np);
    let dkids = encd_list(a, rank, a[i].first_child, dep + 1);
    lemma_enc_lst(a, rank, a[i].first_child, dep + 1, x, vocab);
    let n = mk_node(a[i].byte, a[i].token_id, np, 1 + kids.len());
    assert(enc(a, rank, i, np) == seq![n] + kids);
    assert(enc(a, rank, i, np).len() == 1 + kids.len());
    lemma_mk_node(a[i].byte, a[i].token_id, np, 1 + kids.len());
    lemma_node(n, kids, dkids, dep, x, vocab);
}

/// sibling list starting at c, at depth dep, whose parent was called with np = dep - x
pub proof fn lemma_enc_lst(a: Arena, rank: Seq<nat>, c: u32, dep: nat, x: nat, vocab: u32)
    requires arena_wf(a, rank), c == NO_NODE || c < a.len(), 1 <= x <= dep, arena_toks_ok(a, vocab),
        fits_list(a, rank, c, (dep - x) as nat),
    ensures lst(enc_list(a, rank, c, (dep - x) as nat), encd_list(a, rank, c, dep), dep, x, vocab),
    decreases (if c == NO_NODE { 0nat } else { rank[c as int] + 1 }), 0nat
{
    let np: nat = (dep - x) as nat;
    if c != NO_NODE {
        assert(link_ok(a, rank, c as int));
        let nx = a[c as int].next_sibling;
        if nx == NO_NODE {
            // last child: exit depth x, called with np + 1 = dep - x + 1
            lemma_enc_blk(a, rank, c as int, dep, x, vocab);
            assert(enc_list(a, rank, nx, np) =~= Seq::<TrieNode>::empty());
            assert(encd_list(a, rank, nx, dep) =~= Seq::<nat>::empty());
            assert(enc_list(a, rank, c, np) =~= enc(a, rank, c as int, np + 1));
            assert(encd_list(a, rank, c, dep) =~= encd(a, rank, c as int, dep));
        } else {
            // a sibling follows at the same depth: exit depth dep, called with 1 = dep - dep + 1
            lemma_enc_blk(a, rank, c as int, dep, dep, vocab);
            lemma_enc_lst(a, rank, nx, dep, x, vocab);
            assert(link_ok(a, rank, nx as int));
            let rest = enc_list(a, rank, nx, np);
            assert(rest.len() > 0) by {
                let npn: nat = if a[nx as int].next_sibling == NO_NODE { np + 1 } else { 1 };
                assert(enc(a, rank, nx as int, npn).len() >= 1);
            }
            lemma_cons(enc(a, rank, c as int, 1), encd(a, rank, c as int, dep), rest, encd_list(a, rank, nx, dep), dep, x, vocab);
        }
    }
}

/// the whole array: root node + the list of its children (root is serialized with num_parents = 0)
pub proof fn lemma_root_trie_wf(a: Arena, rank: Seq<nat>, vocab: u32)
    requires arena_wf(a, rank), a.len() >= 1, arena_toks_ok(a, vocab), fits(a, rank, 0, 0),
    ensures trie_wf(enc(a, rank, 0, 0), encd(a, rank, 0, 0), vocab),
{
    assert(link_ok(a, rank, 0));
    let l = enc_list(a, rank, a[0].first_child, 0);
    let dl = encd_list(a, rank, a[0].first_child, 1);
    lemma_enc_lst(a, rank, a[0].first_child, 1, 1, vocab);
    let n0 = mk_node(a[0].byte, a[0].token_id, 1, 1 + l.len());
    let nodes = enc(a, rank, 0, 0);
    let d = encd(a, rank, 0, 0);
    assert(nodes == seq![n0] + l);
    assert(d == seq![0nat] + dl);
    lemma_mk_node(a[0].byte, a[0].token_id, 1, 1 + l.len());
    assert forall|j: int| 1 <= j < nodes.len() implies #[trigger] step_ok(d, j) by {
        assert(b_ge(dl, 1, j - 1));
        if j >= 2 { assert(b_step(dl, j - 1)); }
    }
    assert forall|j: int| 0 <= j < nodes.len() implies #[trigger] size_ok(nodes, j) by {
        if j >= 1 { assert(b_size(l, j - 1)); }
    }
    assert forall|j: int, k: int| 0 <= j < nodes.len() && 0 <= k < nodes.len() implies #[trigger] deeper(nodes, d, j, k) by {
        if j == 0 { if k >= 1 { assert(b_ge(dl, 1, k - 1)); } }
        else if k >= 1 { assert(b_deeper(l, dl, j - 1, k - 1)); }
    }
    assert forall|j: int| 0 <= j < nodes.len() implies #[trigger] next_ok(nodes, d, j) by {
        if j >= 1 { assert(b_size(l, j - 1)); assert(b_next(l, dl, j - 1)); }
    }
    assert forall|j: int| 1 <= j < nodes.len() implies #[trigger] np_ok(nodes, d, j) by {
        assert(b_size(l, j - 1)); assert(b_np(l, dl, 1, j - 1));
    }
    assert forall|j: int| 0 <= j < nodes.len() implies #[trigger] tok_ok(nodes, j, vocab) by {
        if j >= 1 { assert(tok_ok(l, j - 1, vocab)); }
    }
}

/// what TokTrie::from / filter obtain: `trie.serialize(&mut nodes, 0)` on an empty Vec yields a TrieWf array
pub proof fn lemma_from_output_wf(a: Arena, vocab: u32, out: Seq<TrieNode>)
    requires wf_arena(a), a.len() >= 1, arena_toks_ok(a, vocab), fits(a, rk(a), 0, 0),
        out == Seq::<TrieNode>::empty() + enc(a, rk(a), 0, 0),
    ensures exists|d: Seq<nat>| trie_wf(out, d, vocab),
{
    lemma_root_trie_wf(a, rk(a), vocab);
    assert(out =~= enc(a, rk(a), 0, 0));
    assert(trie_wf(out, encd(a, rk(a), 0, 0), vocab));
}

// vacuity guards (must be REJECTED)
pub proof fn must_fail_root_pre_contradictory(a: Arena, rank: Seq<nat>, vocab: u32)
    requires arena_wf(a, rank), a.len() >= 1, arena_toks_ok(a, vocab), fits(a, rank, 0, 0),
    ensures false,
{
}
pub proof fn must_fail_wrong_root_parents(a: Arena, rank: Seq<nat>, vocab: u32)
    requires arena_wf(a, rank), a.len() >= 2, a[0].first_child == 1, a[1].next_sibling == NO_NODE, arena_toks_ok(a, vocab), fits(a, rank, 0, 3),
    ensures trie_wf(enc(a, rank, 0, 3), encd(a, rank, 0, 0), vocab),
{
    lemma_root_trie_wf(a, rank, vocab);
}

/// witness: the preconditions are satisfiable (a root with one leaf child)
pub proof fn witness_two_node_arena()
{
    let root = BuilderNode { token_id: 0xff_ffff, byte: 0xff, first_child: 1, next_sibling: NO_NODE, last_child: 1 };
    let leaf = BuilderNode { token_id: 0, byte: 97, first_child: NO_NODE, next_sibling: NO_NODE, last_child: NO_NODE };
    let a: Arena = seq![root, leaf];
    let rank: Seq<nat> = seq![1nat, 0nat];
    assert(link_ok(a, rank, 0) && link_ok(a, rank, 1));
    assert(arena_wf(a, rank));
    assert(NO_TOKEN == 0xff_ffffu32);
    assert(arena_toks_ok(a, 1)) by {
        assert forall|i: int| 0 <= i < a.len() implies ((#[trigger] a[i]).token_id == NO_TOKEN || a[i].token_id < 1) by { }
    }
    reveal_with_fuel(enc, 3); reveal_with_fuel(enc_list, 3); reveal_with_fuel(fits, 3); reveal_with_fuel(fits_list, 3);
    assert(enc_list(a, rank, NO_NODE, 1) =~= Seq::<TrieNode>::empty());
    assert(enc(a, rank, 1, 1).len() == 1);
    assert(enc_list(a, rank, 1, 0) =~= enc(a, rank, 1, 1));
    assert(enc(a, rank, 0, 0).len() == 2);
    assert(fits(a, rank, 0, 0));
}

} // verus!
fn main() {}
