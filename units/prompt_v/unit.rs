// Unit prompt_v: TokenParser::process_prompt and tokenize_and_chop (parser/src/tokenparser.rs), whole functions: the returned prompt
// plus the text the engine still owes (grm_prefix ++ forced bytes not yet moved into the prompt) equals the original prompt plus the
// forced bytes - nothing lost, nothing invented.
use vstd::prelude::*;

// R3: logging macro defined empty
macro_rules! infoln { ($($t:tt)*) => {}; }

verus! {

global size_of usize == 8;

pub type TokenId = u32;

/// bytes a token contributes to decode_raw (TokTrie::token / the \xFF[id] spelling of special tokens; its length is
/// spec_token_len of unit chop_v)
pub uninterp spec fn tok_bytes(t: u32) -> Seq<u8>;

/// decode_raw as a function of the token sequence
pub open spec fn dec(s: Seq<u32>) -> Seq<u8>
    decreases s.len()
{
    if s.len() == 0 { Seq::empty() } else { dec(s.drop_last()) + tok_bytes(s.last()) }
}

pub proof fn lemma_dec_concat(a: Seq<u32>, b: Seq<u32>)
    ensures dec(a + b) == dec(a) + dec(b),
    decreases b.len()
{
    if b.len() == 0 {
        assert(a + b =~= a);
        assert(dec(a) + dec(b) =~= dec(a));
    } else {
        lemma_dec_concat(a, b.drop_last());
        assert((a + b).drop_last() =~= a + b.drop_last());
        assert((a + b).last() == b.last());
        assert(dec(a + b) =~= dec(a) + dec(b));
    }
}

pub struct ShimTrie {}
impl ShimTrie {
    /// ASSUMED: decode_raw concatenates the per-token bytes (format!/extend loop in toktree.rs, outside Verus)
    #[verifier::external_body]
    pub fn decode_raw(&self, tokens: &[TokenId]) -> (r: Vec<u8>)
        ensures r@ == dec(tokens@),
    { unimplemented!() }
}

pub struct ShimEnv { pub canonical: bool }
impl ShimEnv {
    pub fn tok_trie(&self) -> (r: &ShimTrie) { &ShimTrie {} }
    #[verifier::external_body]
    pub fn tokenize_is_canonical(&self) -> (r: bool)
        ensures r == self.canonical,
    { unimplemented!() }
    /// ASSUMED (tokenizer adapter, asserted canonical by the caller): tokenisation is lossless, and the count of fixed tokens is
    /// within the result
    #[verifier::external_body]
    pub fn tokenize_bytes_marker(&self, s: &[u8]) -> (r: (Vec<TokenId>, usize))
        ensures self.canonical ==> dec(r.0@) == s@, r.1 <= r.0@.len(),
    { unimplemented!() }
}

pub struct ShimParser { pub ghost bytes: Seq<u8>, pub ghost forced: Seq<int> }
impl ShimParser {
    #[verifier::external_body]
    pub fn lexer_stats(&self) -> (r: usize) { unimplemented!() }
    /// Parser::force_bytes: may extend the parser's byte string with forced bytes (what it appends is the Earley side's business)
    #[verifier::external_body]
    pub fn force_bytes(&mut self)
        ensures final(self).forced == old(self).forced,
    { unimplemented!() }
    #[verifier::external_body]
    pub fn get_bytes(&self) -> (r: &[u8])
        ensures r@ == self.bytes,
    { unimplemented!() }
    /// Parser::apply_forced: records how many of the forced bytes were moved into the prompt
    #[verifier::external_body]
    pub fn apply_forced(&mut self, n: usize)
        ensures final(self).forced == old(self).forced.push(n as int), final(self).bytes == old(self).bytes,
    { unimplemented!() }
    /// R17: `self.parser.with_recognizer(|r| trie.chop_tokens(r, toks))` as one call.  Contract = the postcondition of
    /// TokTrie::chop_tokens proved in unit chop_v (whole tokens, exact byte count), restated over `dec`; the recognizer is restored
    /// by the walk (walk_v), so the parser's bytes are unchanged
    #[verifier::external_body]
    pub fn chop_with_recognizer(&mut self, trie: &ShimTrie, toks: &[TokenId]) -> (r: (usize, usize))
        ensures
            (r.0 == 0 && r.1 == 0) || (1 <= r.0 <= toks@.len() && r.1 == dec(toks@.subrange(toks@.len() - r.0, toks@.len() as int)).len()),
            final(self).bytes == old(self).bytes, final(self).forced == old(self).forced,
    { unimplemented!() }
}

pub struct TokenParser {
    pub token_env: ShimEnv,
    pub parser: ShimParser,
    pub llm_tokens: Vec<TokenId>,
    pub llm_bytes: Vec<u8>,
    pub grm_prefix: Vec<u8>,
    pub is_fresh: bool,
}

// assumed std spec (trusted): <[T]>::to_vec copies the slice; u8::clone is the identity
pub assume_specification<T: Clone> [<[T]>::to_vec] (s: &[T]) -> (r: Vec<T>)
    ensures r@.len() == s@.len(), forall|i: int| 0 <= i < s@.len() ==> cloned::<T>(#[trigger] s@[i], r@[i]);
pub broadcast proof fn axiom_cloned_u8(a: u8, b: u8)
    ensures #[trigger] cloned::<u8>(a, b) ==> a == b,
{ admit(); }

/// R16: `decoded[1..] == self.llm_bytes` (slice == Vec through PartialEq) as a call with the obvious contract
#[verifier::external_body]
pub fn slice_eq_vec(a: &[u8], b: &Vec<u8>) -> (r: bool)
    ensures r == (a@ == b@),
{ unimplemented!() }

impl TokenParser {
    pub fn tok_trie(&self) -> (r: &ShimTrie) { self.token_env.tok_trie() }
    /// opaque: `!no_forcing && tokenize_is_canonical()`
    #[verifier::external_body]
    pub fn can_force_bytes(&self) -> (r: bool) { unimplemented!() }

//@@ fn parser/src/tokenparser.rs TokenParser::tokenize_and_chop
//@ ret res
//@ rewrite R17 :: self .parser .with_recognizer(|r| trie.chop_tokens(r, &tokens[num_fixed..])) ==> self.parser.chop_with_recognizer(trie, &tokens[num_fixed..])
//@ spec
    requires num_fixed <= tokens@.len(),
    ensures
        // whole tokens are removed from the end, and chop_bytes is exactly what they spell
        res.1 <= dec(tokens@).len(),
        dec(res.0@) == dec(tokens@).take(dec(tokens@).len() - res.1),
        final(self).parser.bytes == old(self).parser.bytes, final(self).parser.forced == old(self).parser.forced,
        final(self).llm_bytes == old(self).llm_bytes, final(self).llm_tokens == old(self).llm_tokens,
        final(self).grm_prefix == old(self).grm_prefix, final(self).token_env == old(self).token_env,
//@ before tokens.truncate(
    let ghost t0 = tokens@;
    proof {
        let n = t0.len() as int;
        let k = chop_tokens as int;
        let sub = t0.skip(num_fixed as int);
        if k > 0 {
            assert(sub.subrange(sub.len() - k, sub.len() as int) =~= t0.subrange(n - k, n));
        } else {
            assert(t0.subrange(n, n) =~= Seq::<u32>::empty());
        }
        assert(t0 =~= t0.take(n - k) + t0.subrange(n - k, n));
        lemma_dec_concat(t0.take(n - k), t0.subrange(n - k, n));
        assert(dec(t0) == dec(t0.take(n - k)) + dec(t0.subrange(n - k, n)));
        assert(dec(t0.take(n - k)) =~= dec(t0).take(dec(t0).len() - chop_bytes));
    }
//@ end

//@@ fn parser/src/tokenparser.rs TokenParser::process_prompt
//@ ret res
//@ rewrite R16 :: decoded[1..] == self.llm_bytes ==> slice_eq_vec(&decoded[1..], &self.llm_bytes)
//@ spec
    requires
        // the three assert!s at the top of the function
        old(self).token_env.canonical, old(self).is_fresh, old(self).llm_tokens@.len() == 0,
        // a fresh parser: nothing recorded yet
        old(self).llm_bytes@.len() == 0, old(self).grm_prefix@.len() == 0, old(self).parser.forced.len() == 0,
        dec(prompt@).len() + old(self).parser.bytes.len() < usize::MAX,
    ensures
        ({
            let p = dec(prompt@);               // the caller's prompt, as bytes
            let g = final(self).parser.bytes;   // the bytes the grammar forces at the start
            let s = *final(self);
            // (a) healing stayed inside the forced bytes: k of them moved into the returned prompt, the engine records exactly
            //     those (modulo the one fictitious leading space of the "<s>space hack")
            ||| (s.parser.forced.len() == 1 && 0 <= s.parser.forced[0] <= g.len()
                    && dec(res@) == p + g.take(s.parser.forced[0])
                    && s.llm_bytes@ == s.grm_prefix@ + g.take(s.parser.forced[0])
                    && (s.grm_prefix@.len() == 0 || s.grm_prefix@ == seq![0x20u8]))
            // (b) healing reached into the prompt: the chopped prompt bytes become the grammar prefix
            ||| (s.parser.forced.len() == 0 && s.llm_bytes@.len() == 0 && dec(res@) + s.grm_prefix@ == p)
        }),
//@ body_start
    broadcast use axiom_cloned_u8;
//@ before self.llm_tokens =
    proof {
        assert(self.llm_bytes@ =~= grm_bytes@.take(grm_bytes@.len() - chop_bytes));
        assert(self.grm_prefix@ + self.llm_bytes@ =~= self.llm_bytes@);
        assert(dec(res_prompt@) =~= dec(prompt@) + grm_bytes@.take(grm_bytes@.len() - chop_bytes));
    }
//@ after self.llm_bytes = decoded;
    proof {
        assert(self.grm_prefix@.len() == 1);
        assert(decoded@.subrange(0, 1)[0] == decoded@[0]);
        assert(self.grm_prefix@[0] == 0x20u8);
        assert(self.grm_prefix@ =~= seq![0x20u8]);
        assert(decoded@ =~= decoded@.take(1) + decoded@.skip(1));
        assert(self.llm_bytes@ =~= self.grm_prefix@ + grm_bytes@.take(grm_bytes@.len() - chop_bytes));
    }
//@ else_end if chop_bytes
    proof {
        let a = prompt_bytes@.len() - chop_bytes;
        let b = prompt_bytes@.len() - grm_bytes@.len();
        let sub = prompt_bytes@.subrange(a, b);
        assert(self.grm_prefix@.len() == b - a);
        assert forall|i: int| 0 <= i < b - a implies self.grm_prefix@[i] == prompt_bytes@[a + i] by {
            assert(sub[i] == prompt_bytes@[a + i]);
        }
        assert(prompt_bytes@.take(a) + self.grm_prefix@ =~= dec(prompt@));
    }
//@ end
}

// vacuity guards (must FAIL)
pub fn must_fail_prefix_always_empty(tp: &mut TokenParser, prompt: Vec<TokenId>)
    requires old(tp).token_env.canonical, old(tp).is_fresh, old(tp).llm_tokens@.len() == 0,
        old(tp).llm_bytes@.len() == 0, old(tp).grm_prefix@.len() == 0, old(tp).parser.forced.len() == 0,
        dec(prompt@).len() + old(tp).parser.bytes.len() < usize::MAX,
{
    let r = tp.process_prompt(prompt);
    assert(tp.grm_prefix@.len() == 0);
}
pub fn must_fail_assumed_contracts_contradictory(tp: &mut TokenParser, s: Vec<u8>)
    requires old(tp).token_env.canonical,
{
    let trie = tp.token_env.tok_trie();
    let (t, n) = tp.token_env.tokenize_bytes_marker(s.as_slice());
    let d = trie.decode_raw(t.as_slice());
    let c = tp.parser.chop_with_recognizer(trie, t.as_slice());
    assert(false);
}

} // verus!
fn main() {}
