// Unit prompt_v: TokenParser::process_prompt and tokenize_and_chop (parser/src/tokenparser.rs), whole functions: the returned prompt
// plus the text the engine still owes (grm_prefix ++ forced bytes not yet moved into the prompt) equals the original prompt plus the
// forced bytes - nothing lost, nothing invented.
use vstd::prelude::*;

// R3: logging macro defined empty
macro_rules! infoln { ($($t:tt)*) => {}; }

verus! {

global size_of usize == 8;

pub type TokenId = u32;

//@@ include common/tokdec.vrs

pub struct ShimTrie {}
impl ShimTrie {
    /// ASSUMED: decode_raw concatenates the per-token bytes (format!/extend loop in toktree.rs, outside Verus)
    #[verifier::external_body]
    pub fn decode_raw(&self, tokens: &[TokenId]) -> (r: Vec<u8>)
        ensures r@ == dec(tokens@),
    { unimplemented!() }
}

pub struct ShimEnv { pub canonical: bool }
impl ShimEnv {
    pub fn tok_trie(&self) -> (r: &ShimTrie) { &ShimTrie {} }
    #[verifier::external_body]
    pub fn tokenize_is_canonical(&self) -> (r: bool)
        ensures r == self.canonical,
    { unimplemented!() }
    /// ASSUMED (tokenizer adapter, asserted canonical by the caller): tokenisation is lossless, and the count of fixed tokens is
    /// within the result
    #[verifier::external_body]
    pub fn tokenize_bytes_marker(&self, s: &[u8]) -> (r: (Vec<TokenId>, usize))
        ensures self.canonical ==> dec(r.0@) == s@, r.1 <= r.0@.len(),
    { unimplemented!() }
}

pub struct ShimParser { pub ghost bytes: Seq<u8>, pub ghost forced: Seq<int> }
impl ShimParser {
    #[verifier::external_body]
    pub fn lexer_stats(&self) -> (r: usize) { unimplemented!() }
    /// Parser::force_bytes: may extend the parser's byte string with forced bytes (what it appends is the Earley side's business)
    #[verifier::external_body]
    pub fn force_bytes(&mut self)
        ensures final(self).forced == old(self).forced,
    { unimplemented!() }
    #[verifier::external_body]
    pub fn get_bytes(&self) -> (r: &[u8])
        ensures r@ == self.bytes,
    { unimplemented!() }
    /// Parser::apply_forced: records how many of the forced bytes were moved into the prompt
    #[verifier::external_body]
    pub fn apply_forced(&mut self, n: usize)
        ensures final(self).forced == old(self).forced.push(n as int), final(self).bytes == old(self).bytes,
    { unimplemented!() }
    /// R17: `self.parser.with_recognizer(|r| trie.chop_tokens(r, toks))` as one call.  Contract = the postcondition of
    /// TokTrie::chop_tokens proved in unit chop_v (whole tokens, exact byte count), restated over `dec`; the recognizer is restored
    /// by the walk (walk_v), so the parser's bytes are unchanged
    #[verifier::external_body]
    pub fn chop_with_recognizer(&mut self, trie: &ShimTrie, toks: &[TokenId]) -> (r: (usize, usize))
        ensures
            (r.0 == 0 && r.1 == 0) || (1 <= r.0 <= toks@.len() && r.1 == dec(toks@.subrange(toks@.len() - r.0, toks@.len() as int)).len()),
            final(self).bytes == old(self).bytes, final(self).forced == old(self).forced,
    { unimplemented!() }
}

pub struct TokenParser {
    pub token_env: ShimEnv,
    pub parser: ShimParser,
    pub llm_tokens: Vec<TokenId>,
    pub llm_bytes: Vec<u8>,
    pub grm_prefix: Vec<u8>,
    pub is_fresh: bool,
}

// assumed std spec (trusted): <[T]>::to_vec copies the slice; u8::clone is the identity
pub assume_specification<T: Clone> [<[T]>::to_vec] (s: &[T]) -> (r: Vec<T>)
    ensures r@.len() == s@.len(), forall|i: int| 0 <= i < s@.len() ==> cloned::<T>(#[trigger] s@[i], r@[i]);
pub broadcast proof fn axiom_cloned_u8(a: u8, b: u8)
    ensures #[trigger] cloned::<u8>(a, b) ==> a == b,
{ admit(); }

/// R19: `std::cmp::max` on usize as a local function
pub fn max_usize(a: usize, b: usize) -> (r: usize)
    ensures r == (if a >= b { a } else { b }),
{ if a >= b { a } else { b } }

/// R20: `a.starts_with(&b)` on Vec<u32> as a call with the obvious contract
#[verifier::external_body]
pub fn vec_starts_with(a: &Vec<TokenId>, b: &Vec<TokenId>) -> (r: bool)
    ensures r == (b@.len() <= a@.len() && a@.take(b@.len() as int) == b@),
{ unimplemented!() }

/// R23: `v.drain(..n);` (result dropped at once) removes the first n elements
#[verifier::external_body]
pub fn vec_drain_front(v: &mut Vec<TokenId>, n: usize)
    requires n <= old(v)@.len(),
    ensures final(v)@ == old(v)@.skip(n as int),
{ unimplemented!() }

/// R16: `decoded[1..] == self.llm_bytes` (slice == Vec through PartialEq) as a call with the obvious contract
#[verifier::external_body]
pub fn slice_eq_vec(a: &[u8], b: &Vec<u8>) -> (r: bool)
    ensures r == (a@ == b@),
{ unimplemented!() }

/// the bytes the grammar forces in the state `tp` (decided by the lexer hint / Earley state, not under contract here)
pub uninterp spec fn spec_ff_bytes(tp: TokenParser) -> Seq<u8>;

pub broadcast proof fn axiom_cloned_u32(a: u32, b: u32)
    ensures #[trigger] cloned::<u32>(a, b) ==> a == b,
{ admit(); }

impl TokenParser {
    pub fn tok_trie(&self) -> (r: &ShimTrie) { self.token_env.tok_trie() }
    /// Parser-side (TokenParser::compute_ff_bytes_to -> Parser::force_bytes): appends the bytes the grammar forces at this point;
    /// which bytes those are is the Earley side's business (uninterpreted `spec_ff_bytes`)
    #[verifier::external_body]
    pub fn compute_ff_bytes_to(&mut self, trg: &mut Vec<u8>)
        ensures final(trg)@ == old(trg)@ + spec_ff_bytes(*old(self)),
            final(self).llm_tokens == old(self).llm_tokens, final(self).token_env == old(self).token_env,
            final(self).llm_bytes == old(self).llm_bytes, final(self).grm_prefix == old(self).grm_prefix,
    { unimplemented!() }
    /// opaque: `!no_forcing && tokenize_is_canonical()`
    #[verifier::external_body]
    pub fn can_force_bytes(&self) -> (r: bool) { unimplemented!() }

//@@ fn parser/src/tokenparser.rs TokenParser::tokenize_and_chop
//@ ret res
//@ rewrite R17 :: self .parser .with_recognizer(|r| trie.chop_tokens(r, &tokens[num_fixed..])) ==> self.parser.chop_with_recognizer(trie, &tokens[num_fixed..])
//@ spec
    requires num_fixed <= tokens@.len(),
    ensures
        // whole tokens are removed from the end (never one of the first num_fixed), and chop_bytes is exactly what they spell
        num_fixed <= res.0@.len() <= tokens@.len(),
        res.0@ == tokens@.take(res.0@.len() as int),
        res.1 == dec(tokens@.skip(res.0@.len() as int)).len(),
        res.1 <= dec(tokens@).len(),
        dec(res.0@) == dec(tokens@).take(dec(tokens@).len() - res.1),
        final(self).parser.bytes == old(self).parser.bytes, final(self).parser.forced == old(self).parser.forced,
        final(self).llm_bytes == old(self).llm_bytes, final(self).llm_tokens == old(self).llm_tokens,
        final(self).grm_prefix == old(self).grm_prefix, final(self).token_env == old(self).token_env,
//@ before tokens.truncate(
    let ghost t0 = tokens@;
    proof {
        let n = t0.len() as int;
        let k = chop_tokens as int;
        let sub = t0.skip(num_fixed as int);
        if k > 0 {
            assert(sub.subrange(sub.len() - k, sub.len() as int) =~= t0.subrange(n - k, n));
        } else {
            assert(t0.subrange(n, n) =~= Seq::<u32>::empty());
        }
        assert(t0 =~= t0.take(n - k) + t0.subrange(n - k, n));
        lemma_dec_concat(t0.take(n - k), t0.subrange(n - k, n));
        assert(dec(t0) == dec(t0.take(n - k)) + dec(t0.subrange(n - k, n)));
        assert(dec(t0.take(n - k)) =~= dec(t0).take(dec(t0).len() - chop_bytes));
        assert(t0.skip(n - k) =~= t0.subrange(n - k, n));
    }
//@ end


//@@ fn parser/src/tokenparser.rs TokenParser::ff_tokens
//@ ret res
//@ rewrite R19 :: std::cmp::max(existing_tokens.len(), num_fixed) ==> max_usize(existing_tokens.len(), num_fixed)
//@ rewrite R20 :: tokens.starts_with(&existing_tokens) ==> vec_starts_with(&tokens, &existing_tokens)
//@ rewrite R20 :: grm_tokens.starts_with(&existing_tokens) ==> vec_starts_with(&grm_tokens, &existing_tokens)
//@ rewrite R22 :: (tokens, num_fixed) = self .token_env .tokenize_bytes_marker(&forced_bytes[num_existing_bytes..]); ==> let verif_t = self.token_env.tokenize_bytes_marker(&forced_bytes[num_existing_bytes..]); tokens = verif_t.0; num_fixed = verif_t.1;
//@ rewrite R23 :: grm_tokens.drain(..existing_tokens.len()); ==> vec_drain_front(&mut grm_tokens, existing_tokens.len());
//@ rewrite R21 :: let t0 = Instant::now(); ==> 
//@ rewrite R21 :: self.parser.perf_counters().tokenize_ff.record(t0.elapsed()); ==> 
//@ spec
    ensures
        // the fast-forward tokens spell a prefix of the bytes the grammar forces, and what is left of those bytes is the mandatory
        // prefix of the next token: nothing lost, nothing invented
        dec(res.0@) + res.1@ == spec_ff_bytes(*old(self)),
        final(self).llm_tokens == old(self).llm_tokens,
//@ body_start
    broadcast use axiom_cloned_u8, axiom_cloned_u32;
    let ghost ff = spec_ff_bytes(*self);
//@ before let num_existing_bytes
    let ghost e0 = forced_bytes@;
    proof {
        if self.llm_tokens@.len() > 0 {
            let n = self.llm_tokens@.len() as int;
            assert(existing_tokens@.len() == 1);
            assert(self.llm_tokens@.subrange(n - 1, n)[0] == self.llm_tokens@[n - 1]);
            assert(existing_tokens@[0] == self.llm_tokens@[n - 1]);
            assert(existing_tokens@ =~= seq![self.llm_tokens@[n - 1]]);
            lemma_dec_single(self.llm_tokens@[n - 1]);
        }
        assert(e0 == dec(existing_tokens@));
    }
//@ after self.compute_ff_bytes_to(&mut forced_bytes);
    proof { assert(forced_bytes@ == e0 + ff); }
//@ after let verif_t = self.token_env.tokenize_bytes_marker(&forced_bytes[num_existing_bytes..]);
    proof {
        assert(forced_bytes@.skip(num_existing_bytes as int) =~= ff);
        assert(dec(verif_t.0@) == ff);
    }
//@ before let (mut grm_tokens, chop_bytes)
    let ghost toks0 = tokens@;
    let ghost ex = existing_tokens@;
    proof {
        assert(dec(toks0) == dec(ex) + ff);
        assert(toks0.take(ex.len() as int) == ex);
        assert(ex.len() <= num_fixed <= toks0.len());
    }
//@ before assert!(vec_starts_with(&grm_tokens, &existing_tokens));
    let ghost m = grm_tokens@.len() as int;
    proof {
        assert(grm_tokens@.take(ex.len() as int) =~= toks0.take(ex.len() as int));
    }
//@ before if !grm_tokens.is_empty()
    proof {
        let x = ex.len() as int;
        lemma_dec_split3(toks0, x, m);
        let mid = dec(toks0.subrange(x, m));
        let tail = dec(toks0.skip(m));
        assert(grm_tokens@ =~= toks0.subrange(x, m));
        // dec(ex) + mid + tail == dec(ex) + ff  ==>  mid + tail == ff
        assert((dec(ex) + mid + tail).skip(dec(ex).len() as int) =~= mid + tail);
        assert((dec(ex) + ff).skip(dec(ex).len() as int) =~= ff);
        assert(mid + tail == ff);
        let fb = forced_bytes@;
        assert(fb == e0 + ff);
        assert(chop_bytes == tail.len());
        let sub = fb.subrange(fb.len() - chop_bytes, fb.len() as int);
        assert(token_prefix@.len() == sub.len());
        assert forall|i: int| 0 <= i < sub.len() implies token_prefix@[i] == sub[i] by { assert(cloned::<u8>(sub[i], token_prefix@[i])); }
        assert(ff.len() == mid.len() + tail.len());
        assert forall|i: int| 0 <= i < sub.len() implies sub[i] == tail[i] by {
            assert(sub[i] == fb[fb.len() - chop_bytes + i]);
            assert(fb[fb.len() - chop_bytes + i] == ff[mid.len() + i]);
            assert((mid + tail)[mid.len() + i] == tail[i]);
        }
        assert(token_prefix@ =~= tail);
    }
//@ then_end if forced_bytes.len() > num_existing_bytes
    proof {
        let sub = forced_bytes@.subrange(num_existing_bytes as int, forced_bytes@.len() as int);
        assert(sub =~= ff);
        assert(token_prefix@.len() == sub.len());
        assert forall|i: int| 0 <= i < sub.len() implies token_prefix@[i] == sub[i] by { assert(cloned::<u8>(sub[i], token_prefix@[i])); }
        assert(token_prefix@ =~= ff);
    }
//@ body_end
//@ end

//@@ fn parser/src/tokenparser.rs TokenParser::process_prompt
//@ ret res
//@ rewrite R16 :: decoded[1..] == self.llm_bytes ==> slice_eq_vec(&decoded[1..], &self.llm_bytes)
//@ spec
    requires
        // the three assert!s at the top of the function
        old(self).token_env.canonical, old(self).is_fresh, old(self).llm_tokens@.len() == 0,
        // a fresh parser: nothing recorded yet
        old(self).llm_bytes@.len() == 0, old(self).grm_prefix@.len() == 0, old(self).parser.forced.len() == 0,
        dec(prompt@).len() + old(self).parser.bytes.len() < usize::MAX,
    ensures
        ({
            let p = dec(prompt@);               // the caller's prompt, as bytes
            let g = final(self).parser.bytes;   // the bytes the grammar forces at the start
            let s = *final(self);
            // (a) healing stayed inside the forced bytes: k of them moved into the returned prompt, the engine records exactly
            //     those (modulo the one fictitious leading space of the "<s>space hack")
            ||| (s.parser.forced.len() == 1 && 0 <= s.parser.forced[0] <= g.len()
                    && dec(res@) == p + g.take(s.parser.forced[0])
                    && s.llm_bytes@ == s.grm_prefix@ + g.take(s.parser.forced[0])
                    && (s.grm_prefix@.len() == 0 || s.grm_prefix@ == seq![0x20u8]))
            // (b) healing reached into the prompt: the chopped prompt bytes become the grammar prefix
            ||| (s.parser.forced.len() == 0 && s.llm_bytes@.len() == 0 && dec(res@) + s.grm_prefix@ == p)
        }),
        // the invariant TokenParser::apply_token (unit apply_v) preserves: the recorded bytes are what the recorded tokens spell
        final(self).llm_bytes@ == dec(final(self).llm_tokens@),
//@ body_start
    broadcast use axiom_cloned_u8;
//@ before self.llm_tokens =
    proof {
        assert(self.llm_bytes@ =~= grm_bytes@.take(grm_bytes@.len() - chop_bytes));
        assert(self.grm_prefix@ + self.llm_bytes@ =~= self.llm_bytes@);
        assert(dec(res_prompt@) =~= dec(prompt@) + grm_bytes@.take(grm_bytes@.len() - chop_bytes));
    }
//@ after self.llm_bytes = decoded;
    proof {
        assert(self.grm_prefix@.len() == 1);
        assert(decoded@.subrange(0, 1)[0] == decoded@[0]);
        assert(self.grm_prefix@[0] == 0x20u8);
        assert(self.grm_prefix@ =~= seq![0x20u8]);
        assert(decoded@ =~= decoded@.take(1) + decoded@.skip(1));
        assert(self.llm_bytes@ =~= self.grm_prefix@ + grm_bytes@.take(grm_bytes@.len() - chop_bytes));
    }
//@ else_end if chop_bytes
    proof {
        let a = prompt_bytes@.len() - chop_bytes;
        let b = prompt_bytes@.len() - grm_bytes@.len();
        let sub = prompt_bytes@.subrange(a, b);
        assert(self.grm_prefix@.len() == b - a);
        assert forall|i: int| 0 <= i < b - a implies self.grm_prefix@[i] == prompt_bytes@[a + i] by {
            assert(sub[i] == prompt_bytes@[a + i]);
        }
        assert(prompt_bytes@.take(a) + self.grm_prefix@ =~= dec(prompt@));
    }
//@ end
}

// vacuity guards (must FAIL)
pub fn must_fail_prefix_always_empty(tp: &mut TokenParser, prompt: Vec<TokenId>)
    requires old(tp).token_env.canonical, old(tp).is_fresh, old(tp).llm_tokens@.len() == 0,
        old(tp).llm_bytes@.len() == 0, old(tp).grm_prefix@.len() == 0, old(tp).parser.forced.len() == 0,
        dec(prompt@).len() + old(tp).parser.bytes.len() < usize::MAX,
{
    let r = tp.process_prompt(prompt);
    assert(tp.grm_prefix@.len() == 0);
}
pub fn must_fail_assumed_contracts_contradictory(tp: &mut TokenParser, s: Vec<u8>)
    requires old(tp).token_env.canonical,
{
    let trie = tp.token_env.tok_trie();
    let (t, n) = tp.token_env.tokenize_bytes_marker(s.as_slice());
    let d = trie.decode_raw(t.as_slice());
    let c = tp.parser.chop_with_recognizer(trie, t.as_slice());
    assert(false);
}

} // verus!
fn main() {}
