// Unit utf8_v: parser/src/stop_controller.rs valid_utf8_len, whole function, unbounded in the length of the text.
// The stop controller releases `buf[..valid_utf8_len(buf)]` and keeps the rest: the result must never split a character.
use vstd::prelude::*;
verus! {

global size_of usize == 8;

pub open spec fn is_cont(b: u8) -> bool { b & 0b1100_0000 == 0b1000_0000 }

/// length announced by a lead byte; 0 = not a lead byte (continuation byte or 0xF8..0xFF)
pub open spec fn lead_len(b: u8) -> int {
    if b & 0b1000_0000 == 0 { 1 }
    else if b & 0b1110_0000 == 0b1100_0000 { 2 }
    else if b & 0b1111_0000 == 0b1110_0000 { 3 }
    else if b & 0b1111_1000 == 0b1111_0000 { 4 }
    else { 0 }
}

pub proof fn lemma_lead_not_cont(b: u8)
    ensures lead_len(b) > 0 ==> !is_cont(b), is_cont(b) ==> lead_len(b) == 0,
{
    assert(b & 0b1000_0000 == 0 ==> b & 0b1100_0000 != 0b1000_0000) by (bit_vector);
    assert(b & 0b1110_0000 == 0b1100_0000 ==> b & 0b1100_0000 != 0b1000_0000) by (bit_vector);
    assert(b & 0b1111_0000 == 0b1110_0000 ==> b & 0b1100_0000 != 0b1000_0000) by (bit_vector);
    assert(b & 0b1111_1000 == 0b1111_0000 ==> b & 0b1100_0000 != 0b1000_0000) by (bit_vector);
}

/// s[a..b) are all continuation bytes
pub open spec fn conts(s: Seq<u8>, a: int, b: int) -> bool {
    forall|k: int| a <= k < b ==> is_cont(#[trigger] s[k])
}

/// `s[i..n)` is a sequence of complete characters (a lead byte followed by exactly the announced number of continuation
/// bytes) followed by a proper prefix of one character (possibly empty).  Well-formedness in the lead/continuation-count
/// sense: overlong and surrogate encodings are not distinguished (the code does not distinguish them either).
pub open spec fn wf_from(s: Seq<u8>, i: int, n: int) -> bool
    decreases n - i
{
    if i >= n { true }
    else {
        let l = lead_len(s[i]);
        l > 0 && (
            if i + l <= n { conts(s, i + 1, i + l) && wf_from(s, i + l, n) }
            else { conts(s, i + 1, n) }   // proper prefix of one character
        )
    }
}

/// end of the last complete character of s[i..n) (for wf_from text)
pub open spec fn last_boundary(s: Seq<u8>, i: int, n: int) -> int
    decreases n - i
{
    if i >= n { n }
    else {
        let l = lead_len(s[i]);
        if l > 0 && i + l <= n { last_boundary(s, i + l, n) } else { i }
    }
}

/// index of the last byte at or before j that is not a continuation byte (0 if there is none)
pub open spec fn last_noncont(s: Seq<u8>, j: int) -> int
    decreases j
{
    if j <= 0 { 0 } else if !is_cont(s[j]) { j } else { last_noncont(s, j - 1) }
}

/// the exact value computed by the code, for arbitrary bytes
pub open spec fn spec_valid_len(s: Seq<u8>) -> int {
    if s.len() == 0 { 0 } else {
        let i = last_noncont(s, s.len() - 1);
        let l = if lead_len(s[i]) == 0 { 1 } else { lead_len(s[i]) };
        if i + l <= s.len() { i + l } else { i }
    }
}

/// On a well-formed prefix, the code's result is the end of the last complete character, and at most 3 bytes stay behind.
pub proof fn lemma_wf_boundary(s: Seq<u8>, i: int, n: int)
    requires 0 <= i <= n == s.len(), wf_from(s, i, n), i < n, !is_cont(s[i]) || i == 0,
    ensures
        ({
            let j = last_noncont(s, n - 1);
            let l = if lead_len(s[j]) == 0 { 1 } else { lead_len(s[j]) };
            let r = if j + l <= n { j + l } else { j };
            r == last_boundary(s, i, n) && i <= j && n - last_boundary(s, i, n) <= 3
                && wf_from(s, i, last_boundary(s, i, n))
        }),
    decreases n - i
{
    let l = lead_len(s[i]);
    lemma_lead_not_cont(s[i]);
    if i + l <= n {
        if i + l == n {
            // the last character is complete: bytes i+1..n are continuation bytes, so last_noncont(n-1) == i
            lemma_last_noncont_skip(s, i, n - 1);
            assert(last_boundary(s, i + l, n) == n);
            lemma_wf_cut(s, i, n, n);
        } else {
            assert(wf_from(s, i + l, n));
            assert(lead_len(s[i + l]) > 0);
            lemma_lead_not_cont(s[i + l]);
            lemma_wf_boundary(s, i + l, n);
            let b = last_boundary(s, i + l, n);
            lemma_boundary_ge(s, i + l, n);
            lemma_wf_prepend(s, i, b, n);
        }
    } else {
        // partial character at i: everything after i is a continuation byte
        lemma_last_noncont_skip(s, i, n - 1);
        assert(l <= 4);
        assert(wf_from(s, i, i));
    }
}

pub proof fn lemma_boundary_ge(s: Seq<u8>, i: int, n: int)
    requires 0 <= i <= n,
    ensures i <= last_boundary(s, i, n) <= n,
    decreases n - i
{
    if i < n {
        let l = lead_len(s[i]);
        if l > 0 && i + l <= n { lemma_boundary_ge(s, i + l, n); }
    }
}

/// wf up to a boundary b of the tail carries over when the first character is put in front
pub proof fn lemma_wf_prepend(s: Seq<u8>, i: int, b: int, n: int)
    requires 0 <= i < n, lead_len(s[i]) > 0, i + lead_len(s[i]) <= b <= n, conts(s, i + 1, i + lead_len(s[i])),
        wf_from(s, i + lead_len(s[i]), b),
    ensures wf_from(s, i, b),
{
}

/// cutting a well-formed text at its own end keeps it well formed (trivial instance used above)
pub proof fn lemma_wf_cut(s: Seq<u8>, i: int, n: int, b: int)
    requires wf_from(s, i, n), b == n,
    ensures wf_from(s, i, b),
{
}

/// if s(i+1..=j) are continuation bytes and s[i] is not (or i == 0), the backwards scan from j stops at i
pub proof fn lemma_last_noncont_skip(s: Seq<u8>, i: int, j: int)
    requires 0 <= i <= j < s.len(), conts(s, i + 1, j + 1), !is_cont(s[i]) || i == 0,
    ensures last_noncont(s, j) == i,
    decreases j - i
{
    if j > i {
        assert(is_cont(s[j]));
        lemma_last_noncont_skip(s, i, j - 1);
    }
}

pub proof fn lemma_last_noncont_range(s: Seq<u8>, j: int)
    requires 0 <= j < s.len(),
    ensures 0 <= last_noncont(s, j) <= j,
    decreases j
{
    if j > 0 && is_cont(s[j]) { lemma_last_noncont_range(s, j - 1); }
}

//@@ fn parser/src/stop_controller.rs valid_utf8_len
//@ ret r
//@ spec
    requires data@.len() <= 0x7fff_ffff_ffff_ffff, // a Rust slice never holds more than isize::MAX bytes
    ensures
        // exact value for arbitrary bytes (never past the end, never panics: the index arithmetic is checked by Verus)
        r == spec_valid_len(data@),
        r <= data@.len(),
        // for text that is a prefix of well-formed UTF-8: the result is a character boundary, what is released is
        // a sequence of complete characters, what is kept back is a proper prefix of one character (at most 3 bytes)
        wf_from(data@, 0, data@.len() as int) ==>
            r == last_boundary(data@, 0, data@.len() as int) && wf_from(data@, 0, r as int) && data@.len() - r <= 3,
//@ loop 1
    invariant
        0 <= i < data@.len(),
        last_noncont(data@, data@.len() - 1) == last_noncont(data@, i as int),
    ensures i == 0 || !is_cont(data@[i as int]), // (stated so that an equivalent `loop { if !c { break } .. }` form verifies too)
    decreases i,
//@ before let first_byte = data[i];
    proof {
        lemma_last_noncont_range(data@, data@.len() - 1);
        assert(last_noncont(data@, i as int) == i);
        if wf_from(data@, 0, data@.len() as int) {
            lemma_wf_boundary(data@, 0, data@.len() as int);
        }
    }
//@ end

// ---------------------------------------------------------------- vacuity guards
/// witness: the precondition-free contract is exercised on a concrete text ("é" cut after its lead byte)
pub fn witness_utf8(v: Vec<u8>)
    requires v@.len() == 2, v@[0] == 0x41, v@[1] == 0xC3,
{
    assert(0x41u8 & 0b1000_0000 == 0) by (bit_vector);
    assert(0xC3u8 & 0b1000_0000 != 0) by (bit_vector);
    assert(0xC3u8 & 0b1110_0000 == 0b1100_0000) by (bit_vector);
    assert(0xC3u8 & 0b1100_0000 != 0b1000_0000) by (bit_vector);
    assert(lead_len(v@[0]) == 1 && lead_len(v@[1]) == 2);
    assert(conts(v@, 2, 2));
    assert(wf_from(v@, 1, 2));
    assert(conts(v@, 1, 1));
    assert(wf_from(v@, 0, 2));
    let r = valid_utf8_len(v.as_slice());
    assert(last_boundary(v@, 1, 2) == 1);
    assert(last_boundary(v@, 0, 2) == 1);
    assert(r == 1);
}

/// must FAIL: the function does not always return the whole length
pub fn must_fail_utf8_len_is_len(v: Vec<u8>)
    requires v@.len() <= 1000,
{
    let r = valid_utf8_len(v.as_slice());
    assert(r == v@.len());
}
/// must FAIL: the well-formedness premise is satisfiable together with a non-trivial hold-back
pub fn must_fail_wf_never_holds_back(v: Vec<u8>)
    requires wf_from(v@, 0, v@.len() as int), v@.len() <= 1000,
{
    let r = valid_utf8_len(v.as_slice());
    assert(r == v@.len());
}

} // verus!
fn main() {}
