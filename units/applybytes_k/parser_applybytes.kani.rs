//@@ append parser/src/earley/parser.rs
// Unit applybytes_k (Kani path B): the byte loop of ParserState::apply_token (`for (bidx, &b) in tok_bytes.iter().enumerate()`):
// which parser bytes a committed token is recorded against in byte_to_token_idx.  This is the Earley-side contract that the
// token-level units (apply_v, tprollback_v) assume about Parser::apply_token: without backtracking a token claims exactly its own
// bytes - pushed one by one, or matched against bytes that were already forced - EXCEPT when the forced bytes are the "\xFF[id]"
// spelling of this very token id: then it claims that whole spelling (defect D5 was a mismatch about exactly this).
#[cfg(kani)]
mod verif_kani_applybytes {
    use super::parse_numeric_token;
    use toktrie::TokTrie;

    //@@ span parser/src/earley/parser.rs byte_loop :: for (bidx, &b) in tok_bytes.iter().enumerate() { check_lexer_max_tokens = false; ::: @before item_trace!( "apply_token: ok, {}/{}",

    macro_rules! bail {
        ($($t:tt)*) => {
            return Err(ShimError)
        };
    }
    struct ShimError;
    type Result<T> = core::result::Result<T, ShimError>;
    type TokenId = u32;
    const NB: usize = 4; // forced bytes the parser may already hold (none claimed yet)
    const NT: usize = 2; // bytes of the token

    struct ShimRowInfo {
        applied: usize,
    }
    impl ShimRowInfo {
        fn apply_token_idx(&mut self, _idx: usize) {
            self.applied += 1;
        }
    }
    struct ShimTrie {
        /// the id the token's bytes spell (token_id_at_bytes), if any
        id_of_bytes: Option<TokenId>,
    }
    impl ShimTrie {
        fn token_id_at_bytes(&self, _b: &[u8]) -> Option<TokenId> {
            self.id_of_bytes
        }
    }
    struct ShimEnv {
        trie: ShimTrie,
    }
    impl ShimEnv {
        fn tok_trie(&self) -> &ShimTrie {
            &self.trie
        }
    }
    struct ShimState {
        bytes: Vec<u8>,
        byte_to_token_idx: Vec<u32>,
        token_idx: usize,
        row_infos: [ShimRowInfo; 1],
        tok_env: ShimEnv,
        /// the byte-level acceptor: every push is accepted or not, may ask for backtracking
        push_ok: [bool; NT],
        push_bt: [usize; NT],
        pushes: usize,
        rows: usize,
    }
    impl ShimState {
        fn num_rows(&self) -> usize {
            self.rows
        }
        fn try_push_byte_definitive(&mut self, b: Option<u8>) -> (bool, usize) {
            let k = self.pushes;
            self.pushes += 1;
            if self.push_ok[k % NT] {
                self.bytes.push(b.unwrap());
                (true, self.push_bt[k % NT])
            } else {
                (false, 0)
            }
        }
        fn byte_loop(&mut self, tok_bytes: &[u8]) -> Result<usize> {
            let mut check_lexer_max_tokens = false;
            /*@@paste byte_loop*/
            let _ = check_lexer_max_tokens;
            Ok(0)
        }
    }

    fn run(digits: usize) {
        // parser bytes not yet claimed by any token: none, one ordinary byte, or the complete forced spelling "\xFF[d]"
        let shape: u8 = kani::any();
        kani::assume(shape < 3);
        let x: u8 = kani::any();
        let d: u8 = kani::any();
        kani::assume(x != TokTrie::SPECIAL_TOKEN_MARKER && d >= b'0' && d <= b'9');
        let _ = digits;
        let applied = 0usize;
        let bytes: Vec<u8> = match shape {
            0 => Vec::with_capacity(4),
            1 => {
                let mut v = Vec::with_capacity(4);
                v.push(x);
                v
            }
            _ => {
                let mut v = Vec::with_capacity(8);
                v.push(0xff);
                v.push(b'[');
                v.push(d);
                v.push(b']');
                v
            }
        };
        let forced = bytes.len();
        let special_forced = shape == 2;
        let forced_id = if special_forced { Some((d - b'0') as u32) } else { None };
        let b2t: Vec<u32> = Vec::with_capacity(8);
        let tok: [u8; NT] = kani::any();
        let ntok: usize = kani::any();
        kani::assume(1 <= ntok && ntok <= NT);
        let tok_id: TokenId = kani::any();
        let id_of_bytes: Option<TokenId> = if kani::any() { Some(tok_id) } else if kani::any() { Some(kani::any()) } else { None };
        let mut st = ShimState {
            bytes,
            byte_to_token_idx: b2t,
            token_idx: 5,
            row_infos: [ShimRowInfo { applied: 0 }],
            tok_env: ShimEnv { trie: ShimTrie { id_of_bytes } },
            push_ok: kani::any(),
            push_bt: kani::any(),
            pushes: 0,
            rows: 1,
        };
        let digits = 1usize;
        let r = st.byte_loop(&tok[..ntok]);
        let claimed = st.byte_to_token_idx.len() - applied;
        let by_id = special_forced && tok[0] != TokTrie::SPECIAL_TOKEN_MARKER && id_of_bytes.is_some() && id_of_bytes == forced_id;
        kani::cover!(r.is_ok() && by_id);
        kani::cover!(matches!(r, Ok(0)) && !by_id && forced > 0);
        kani::cover!(matches!(r, Ok(0)) && forced == 0);
        match r {
            Ok(0) => {
                if by_id {
                    // matched by id: the token claims the whole forced "\xFF[id]" spelling and nothing is pushed
                    assert!(claimed == digits + 3 && st.pushes == 0);
                } else {
                    // the token claims exactly its own bytes ...
                    assert!(claimed == ntok);
                }
                // ... all recorded against this token, and every claimed parser byte exists
                assert!(st.byte_to_token_idx.len() <= st.bytes.len());
                let k: usize = kani::any();
                kani::assume(k < claimed);
                assert!(st.byte_to_token_idx[applied + k] == 5);
                if !by_id {
                    assert!(st.bytes[applied + k] == tok[k]);
                }
            }
            Ok(_bt) => {
                // backtracking: nothing is claimed beyond the bytes the parser holds
                assert!(st.byte_to_token_idx.len() <= st.bytes.len());
            }
            Err(_) => {}
        }
    }

    #[kani::proof]
    #[kani::unwind(9)]
    fn apply_token_claims_own_bytes_d1() {
        run(1);
    }
    // vacuity guard (must FAIL): a token always claims exactly its own number of bytes
    #[kani::proof]
    #[kani::unwind(9)]
    fn mustfail_apply_token_always_own_len() {
        let mut st = ShimState {
            bytes: vec![0xff, b'[', b'7', b']'],
            byte_to_token_idx: Vec::with_capacity(8),
            token_idx: 5,
            row_infos: [ShimRowInfo { applied: 0 }],
            tok_env: ShimEnv { trie: ShimTrie { id_of_bytes: Some(7) } },
            push_ok: [true; NT],
            push_bt: [0; NT],
            pushes: 0,
            rows: 1,
        };
        let tok = [b'x'];
        if let Ok(0) = st.byte_loop(&tok) {
            assert!(st.byte_to_token_idx.len() == 1);
        }
    }
}
