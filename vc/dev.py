"""dev helper: python3 -m vc.dev <unit> [repo] -- splice the unit and run verus, print raw output."""
import sys, subprocess, os
from . import splice
unit = sys.argv[1]
repo = sys.argv[2] if len(sys.argv) > 2 and not sys.argv[2].startswith('-') else '/repo'
extra = [a for a in sys.argv[2:] if a.startswith('-')]
root = os.path.dirname(os.path.dirname(os.path.abspath(__file__)))
t = open(os.path.join(root, 'units', unit, 'unit.rs')).read()
src, log, meta = splice.build(t, repo)
os.makedirs('/tmp/vt', exist_ok=True)
p = '/tmp/vt/%s.rs' % unit
open(p, 'w').write(src)
r = subprocess.run(['verus', p, '--triggers-mode', 'silent'] + extra, cwd='/tmp/vt')
sys.exit(r.returncode)
