"""Regenerate MANIFEST.json from registry.json (python3 -m vc.gen_manifest)."""
import json, os
ROOT = os.path.dirname(os.path.dirname(os.path.abspath(__file__)))
reg = json.load(open(os.path.join(ROOT, "registry.json")))
props = [json.loads(l)["id"] for l in open(os.path.join(ROOT, "properties.jsonl")) if l.strip()]
checks, na = [], []
for pid in props:
    if pid in reg["properties"]:
        p = reg["properties"][pid]
        checks.append({
            "property_id": pid,
            "quick_cmd": "./check %s --tier quick" % pid,
            "thorough_cmd": "./check %s --tier thorough" % pid,
            "evidence_file": "/verif/evidence/%s.json" % pid,
            "replay_cmd_template": "./check %s --replay {path}" % pid,
            "engine": "contracts",
            "level_claimed": {"category": p.get("level", "proof"), "text": p["level_text"], "design_ref": p.get("design_ref", "DESIGN.md section 5")},
            "level_note": p["level_note"],
            "technique": p["technique"],
        })
    else:
        na.append({"property_id": pid, "reason": reg["not_applicable"][pid]})
m = {
    "version": 1,
    "setup_cmd": "python3 -m vc.selfcheck",
    "hooks": {
        "guard": "none (no hooks: harness modules are appended to scratch copies only, guarded there by cfg(kani)/cfg(test))",
        "enable": "no build of /repo with hooks; Verus reads /repo sources, Kani/cargo-test run on scratch copies of /repo/toktrie and /repo/parser",
        "baseline_off_cmd": "cd /repo && cargo test --workspace --no-fail-fast --offline",
        "source_commits": [],
        "add_only": True,
    },
    "engines": [
        {"name": "contracts", "path": "/verif/check", "serves_properties": [c["property_id"] for c in checks],
         "kind_free_text": "contract-based deductive verification of the real code: Verus (unbounded, real function bodies spliced with overlaid contracts on every run) and Kani/CBMC (harness modules appended to a scratch copy of the real crates; loop-free harness = complete, otherwise labelled bounded)"}
    ],
    "checks": checks,
    "not_applicable": na,
    "notes": reg.get("notes", ""),
}
json.dump(m, open(os.path.join(ROOT, "MANIFEST.json"), "w"), indent=1)
print("MANIFEST.json: %d checks, %d not applicable" % (len(checks), len(na)))
