"""setup_cmd: nothing to build (python stdlib only); verify that the tools the checks need are present."""
import shutil, subprocess, sys
ok = True
for tool in ("verus", "cargo", "cargo-kani", "cbmc"):
    p = shutil.which(tool)
    print("%-12s %s" % (tool, p or "MISSING"))
    ok = ok and bool(p)
sys.exit(0 if ok else 1)
