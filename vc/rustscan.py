"""Minimal Rust lexer + item locator used to take items *verbatim* out of /repo.

Nothing here interprets Rust semantics: it only finds the text span of a named item
(fn / struct / const / trait method), the pieces of a fn (signature, return type, body),
the loop heads inside a body and literal anchors.  Comments, strings, chars, lifetimes and
raw strings are lexed so that braces inside them are not counted.
"""
import re
from dataclasses import dataclass


class ScanError(Exception):
    pass


@dataclass
class Tok:
    kind: str  # ident | num | punct | str | char | lifetime | comment
    s: int
    e: int
    text: str


_ident_re = re.compile(r"[A-Za-z_][A-Za-z0-9_]*")
_num_re = re.compile(r"[0-9][0-9A-Za-z_]*(\.[0-9][0-9A-Za-z_]*)?")


def lex(src, keep_comments=False):
    toks = []
    i, n = 0, len(src)
    while i < n:
        c = src[i]
        if c.isspace():
            i += 1
            continue
        if src.startswith("//", i):
            j = src.find("\n", i)
            j = n if j < 0 else j
            if keep_comments:
                toks.append(Tok("comment", i, j, src[i:j]))
            i = j
            continue
        if src.startswith("/*", i):
            depth, j = 1, i + 2
            while j < n and depth:
                if src.startswith("/*", j):
                    depth += 1
                    j += 2
                elif src.startswith("*/", j):
                    depth -= 1
                    j += 2
                else:
                    j += 1
            if keep_comments:
                toks.append(Tok("comment", i, j, src[i:j]))
            i = j
            continue
        # raw strings / byte strings
        m = re.match(r'(b|c)?r(#*)"', src[i:i + 40])
        if m:
            hashes = m.group(2)
            end = src.find('"' + hashes, i + m.end())
            if end < 0:
                raise ScanError("unterminated raw string")
            j = end + 1 + len(hashes)
            toks.append(Tok("str", i, j, src[i:j]))
            i = j
            continue
        if c == '"' or (c in "bc" and i + 1 < n and src[i + 1] == '"'):
            j = i + (1 if c == '"' else 2)
            while j < n and src[j] != '"':
                j += 2 if src[j] == "\\" else 1
            j += 1
            toks.append(Tok("str", i, j, src[i:j]))
            i = j
            continue
        if c == "'" or (c == "b" and i + 1 < n and src[i + 1] == "'"):
            k = i + (1 if c == "'" else 2)
            if k < n and src[k] == "\\":
                j = k + 2
                while j < n and src[j] != "'":
                    j += 1
                j += 1
                toks.append(Tok("char", i, j, src[i:j]))
                i = j
                continue
            # 'x' char (possibly multibyte) vs lifetime 'a
            if k + 1 < n and src[k + 1] == "'":
                j = k + 2
                toks.append(Tok("char", i, j, src[i:j]))
                i = j
                continue
            m = _ident_re.match(src, k)
            if m and c == "'":
                toks.append(Tok("lifetime", i, m.end(), src[i:m.end()]))
                i = m.end()
                continue
            raise ScanError("bad quote at %d" % i)
        m = _ident_re.match(src, i)
        if m:
            toks.append(Tok("ident", i, m.end(), m.group(0)))
            i = m.end()
            continue
        m = _num_re.match(src, i)
        if m:
            toks.append(Tok("num", i, m.end(), m.group(0)))
            i = m.end()
            continue
        # multi-char punct we care about
        for p in ("->", "=>", "::", "..=", "..", "&&", "||", "==", "!=", "<=", ">=", "+=", "-=", "*=", "/=", "|=", "&=", "^=", "<<=", ">>="):
            if src.startswith(p, i):
                toks.append(Tok("punct", i, i + len(p), p))
                i += len(p)
                break
        else:
            toks.append(Tok("punct", i, i + 1, c))
            i += 1
    return toks


OPEN = {"(": ")", "[": "]", "{": "}"}
CLOSE = {")", "]", "}"}


def match_close(toks, i):
    """toks[i] is an opening bracket; return index of its closing bracket."""
    depth = 0
    for j in range(i, len(toks)):
        t = toks[j].text
        if toks[j].kind != "punct":
            continue
        if t in OPEN:
            depth += 1
        elif t in CLOSE:
            depth -= 1
            if depth == 0:
                return j
    raise ScanError("unbalanced bracket at offset %d" % toks[i].s)


def _item_start(toks, i, lo):
    """Walk back from toks[i] (`fn`/`struct`/`const`...) over qualifiers and attributes; lo = lowest token index allowed."""
    j = i
    while j - 1 >= lo:
        p = toks[j - 1]
        if p.kind == "ident" and p.text in ("pub", "unsafe", "const", "async", "extern", "default"):
            j -= 1
            continue
        if p.kind == "str" and j - 2 >= lo and toks[j - 2].text == "extern":
            j -= 1
            continue
        if p.kind == "punct" and p.text == ")":
            # pub(crate)
            k = j - 1
            depth = 0
            while k >= lo:
                if toks[k].text == ")":
                    depth += 1
                elif toks[k].text == "(":
                    depth -= 1
                    if depth == 0:
                        break
                k -= 1
            if k - 1 >= lo and toks[k - 1].text == "pub":
                j = k - 1
                continue
            break
        if p.kind == "punct" and p.text == "]":
            k = j - 1
            depth = 0
            while k >= lo:
                if toks[k].text == "]":
                    depth += 1
                elif toks[k].text == "[":
                    depth -= 1
                    if depth == 0:
                        break
                k -= 1
            if k - 1 >= lo and toks[k - 1].text == "#":
                j = k - 1
                continue
            break
        break
    return j


@dataclass
class FnItem:
    name: str
    start: int      # char offsets into src
    sig_start: int  # first char after attributes (qualifiers included)
    body_open: int  # offset of '{'
    body_close: int  # offset of matching '}'
    ret_span: tuple  # (s,e) of return type text or None
    params_close: int  # offset of ')' closing the parameter list
    end: int        # one past '}' (or ';' for bodiless trait methods)
    has_body: bool


def _impl_headers(toks):
    """Yield (header_tokens, body_open_idx, body_close_idx, kind) for top-level impl/trait blocks (also inside inline mods)."""
    out = []

    def walk(lo, hi):
        i = lo
        while i < hi:
            t = toks[i]
            if t.kind == "ident" and t.text in ("impl", "trait") and (i == 0 or toks[i - 1].text not in ("::", ".")):
                # header until '{' or ';'
                j = i + 1
                while j < hi and toks[j].text not in ("{", ";"):
                    if toks[j].text in ("(", "["):
                        j = match_close(toks, j)
                    j += 1
                if j < hi and toks[j].text == "{":
                    c = match_close(toks, j)
                    out.append((toks[i:j], j, c, t.text))
                    i = c + 1
                    continue
                i = j + 1
                continue
            if t.kind == "ident" and t.text == "mod" and i + 2 < hi and toks[i + 2].text == "{":
                c = match_close(toks, i + 2)
                walk(i + 3, c)
                i = c + 1
                continue
            if t.text == "{":
                i = match_close(toks, i) + 1
                continue
            i += 1

    walk(0, len(toks))
    return out


def _self_type(header):
    """(trait_name or None, type_name) of an impl header token list; for `trait X` returns (None, X)."""
    if header[0].text == "trait":
        return None, header[1].text
    # strip leading generics
    i = 1
    if i < len(header) and header[i].text == "<":
        depth = 0
        while i < len(header):
            if header[i].text == "<":
                depth += 1
            elif header[i].text == ">":
                depth -= 1
                if depth == 0:
                    i += 1
                    break
            i += 1
    rest = header[i:]
    # cut where-clause
    for k, t in enumerate(rest):
        if t.kind == "ident" and t.text == "where":
            rest = rest[:k]
            break
    # split on `for` at angle depth 0
    depth = 0
    split = None
    for k, t in enumerate(rest):
        if t.text == "<":
            depth += 1
        elif t.text == ">":
            depth -= 1
        elif t.kind == "ident" and t.text == "for" and depth == 0:
            split = k
    def last_path_ident(ts):
        depth = 0
        name = None
        for t in ts:
            if t.text == "<":
                depth += 1
            elif t.text == ">":
                depth -= 1
            elif t.kind == "ident" and depth == 0:
                name = t.text
        return name
    if split is None:
        return None, last_path_ident(rest)
    return last_path_ident(rest[:split]), last_path_ident(rest[split + 1:])


def _fns_in(toks, lo, hi, src):
    """fn items directly inside token range (lo,hi) (not nested in other braces)."""
    res = []
    i = lo
    while i < hi:
        t = toks[i]
        if t.text == "{":
            i = match_close(toks, i) + 1
            continue
        if t.kind == "ident" and t.text == "fn" and i + 1 < hi and toks[i + 1].kind == "ident":
            name = toks[i + 1].text
            st = _item_start(toks, i, lo)
            # signature start without attributes
            sig = st
            while toks[sig].text == "#":
                sig = match_close(toks, sig + 1) + 1
            # find params '(' after optional generics
            j = i + 2
            if toks[j].text == "<":
                depth = 0
                while True:
                    if toks[j].text == "<":
                        depth += 1
                    elif toks[j].text == ">":
                        depth -= 1
                        if depth == 0:
                            j += 1
                            break
                    elif toks[j].text == "->":
                        pass
                    j += 1
            if toks[j].text != "(":
                raise ScanError("fn %s: cannot find parameter list" % name)
            pc = match_close(toks, j)
            k = pc + 1
            ret = None
            if toks[k].text == "->":
                rs = k + 1
                k = rs
                while toks[k].text not in ("{", ";") and not (toks[k].kind == "ident" and toks[k].text == "where"):
                    if toks[k].text in ("(", "["):
                        k = match_close(toks, k)
                    k += 1
                ret = (toks[rs].s, toks[k - 1].e)
            while toks[k].text not in ("{", ";"):
                if toks[k].text in ("(", "["):
                    k = match_close(toks, k)
                k += 1
            if toks[k].text == "{":
                c = match_close(toks, k)
                res.append(FnItem(name, toks[st].s, toks[sig].s, toks[k].s, toks[c].s, ret, toks[pc].s, toks[c].e, True))
                i = c + 1
            else:
                res.append(FnItem(name, toks[st].s, toks[sig].s, toks[k].s, toks[k].s, ret, toks[pc].s, toks[k].e, False))
                i = k + 1
            continue
        i += 1
    return res


def find_fn(src, path):
    """path: `name` (free fn), `Type::name`, or `Trait@Type::name` (method of `impl Trait for Type`).
    For a trait's own declaration use `trait@Trait::name`."""
    toks = lex(src)
    if "::" not in path:
        # free fn at top level (or inline mod)
        cands = [f for f in _fns_in(toks, 0, len(toks), src) if f.name == path]
        # also look inside inline mods
        if not cands:
            for i, t in enumerate(toks):
                if t.kind == "ident" and t.text == "mod" and i + 2 < len(toks) and toks[i + 2].text == "{":
                    c = match_close(toks, i + 2)
                    cands += [f for f in _fns_in(toks, i + 3, c, src) if f.name == path]
    else:
        owner, name = path.rsplit("::", 1)
        trait = None
        if "@" in owner:
            trait, owner = owner.split("@", 1)
        cands = []
        for header, bo, bc, kind in _impl_headers(toks):
            tr, ty = _self_type(header)
            if trait == "trait":
                if kind != "trait" or ty != owner:
                    continue
            else:
                if kind != "impl" or ty != owner:
                    continue
                if trait is not None and tr != trait:
                    continue
                if trait is None and tr is not None:
                    continue
            cands += [f for f in _fns_in(toks, bo + 1, bc, src) if f.name == name]
    if len(cands) != 1:
        raise ScanError("item %s: %d candidates" % (path, len(cands)))
    return cands[0]


def find_struct(src, name):
    toks = lex(src)
    for i, t in enumerate(toks):
        if t.kind == "ident" and t.text in ("struct", "enum") and toks[i + 1].text == name:
            st = _item_start(toks, i, 0)
            j = i + 2
            while toks[j].text not in ("{", ";", "("):
                j += 1
            if toks[j].text == ";":
                return toks[st].s, toks[i].s if toks[i - 1].text != "pub" else toks[i - 1].s, toks[j].e
            c = match_close(toks, j)
            end = toks[c].e
            if toks[j].text == "(" and toks[c + 1].text == ";":
                end = toks[c + 1].e
            # decl start without attributes
            ds = st
            while toks[ds].text == "#":
                ds = match_close(toks, ds + 1) + 1
            return toks[st].s, toks[ds].s, end
    raise ScanError("struct %s not found" % name)


def find_const(src, name, owner=None):
    toks = lex(src)
    lo, hi = 0, len(toks)
    if owner:
        found = False
        for header, bo, bc, kind in _impl_headers(toks):
            tr, ty = _self_type(header)
            if ty == owner and tr is None:
                for i in range(bo + 1, bc):
                    if toks[i].kind == "ident" and toks[i].text == "const" and toks[i + 1].text == name:
                        lo, hi, found = bo + 1, bc, True
                        break
            if found:
                break
        if not found:
            raise ScanError("const %s::%s not found" % (owner, name))
    depth = 0
    for i in range(lo, hi):
        t = toks[i]
        if t.text == "{":
            depth += 1
        elif t.text == "}":
            depth -= 1
        if depth == 0 and t.kind == "ident" and t.text in ("const", "static") and toks[i + 1].text == name and toks[i + 2].text == ":":
            st = _item_start(toks, i, lo)
            j = i
            while toks[j].text != ";":
                if toks[j].text in OPEN:
                    j = match_close(toks, j)
                j += 1
            ds = st
            while toks[ds].text == "#":
                ds = match_close(toks, ds + 1) + 1
            return toks[ds].s, toks[j].e
    raise ScanError("const %s not found" % name)


LOOP_KW = ("while", "loop", "for")


def loop_heads(body_src):
    """Offsets (into body_src) of the '{' opening each loop body, in order of the loop keyword."""
    toks = lex(body_src)
    res = []
    for i, t in enumerate(toks):
        if t.kind == "ident" and t.text in LOOP_KW:
            if t.text == "for" and i + 1 < len(toks) and toks[i + 1].text == "<":
                continue
            j = i + 1
            while j < len(toks) and toks[j].text != "{":
                if toks[j].text in ("(", "["):
                    j = match_close(toks, j)
                j += 1
            if j >= len(toks):
                raise ScanError("loop without body")
            res.append(toks[j].s)
    return res


def anchor_regex(anchor):
    """Token-sequence regex: whitespace-insensitive, identifiers/numbers match only as whole tokens (so `tokens` does not match the
    tail of `grm_tokens`)."""
    toks = lex(anchor)
    parts = []
    for t in toks:
        e = re.escape(t.text)
        if t.kind in ("ident", "num"):
            e = r"(?<![A-Za-z0-9_])" + e + r"(?![A-Za-z0-9_])"
        parts.append(e)
    return re.compile(r"\s*".join(parts))


def norm_tokens(src):
    return [t.text for t in lex(src)]
