"""Kani path A/B: copy the real crates to a scratch dir, append harness modules to the real source files, run cargo kani.

The verified code is the file from /repo byte-for-byte plus an appended `#[cfg(kani)] mod`.
Harness files (units/<unit>/*.kani.rs) start with a header line
    //@@ append <repo-relative source file>
and may contain `//@@ span <repo-file> <NAME> :: <begin anchor> ::: <end anchor>` (a real statement span) or
`//@@ fnspan <repo-file> <NAME> <ItemPath>` (a whole real fn item) definitions; every `/*@@paste NAME*/` is replaced by
that real text (path B: the real statements / methods are compiled inside a harness function or a shim `impl`
that supplies their free names).
"""
import os
import re
import shutil
import subprocess
import tempfile
import time
import json
import threading

from . import rustscan as rs

CRATES = {"toktrie": "toktrie", "llguidance": "parser"}


class KaniSetupError(Exception):
    pass


def _strip_sections(toml, names):
    out, skip = [], False
    for ln in toml.split("\n"):
        m = re.match(r"^\s*\[+([^\]]+)\]+", ln)
        if m:
            skip = m.group(1).strip() in names
        if not skip:
            out.append(ln)
    return "\n".join(out)


def expand_spans(text, repo, spans_log):
    """`//@@ span <file> NAME :: <begin anchor> ::: <end anchor>` defines a span of real text;
    every `/*@@paste NAME*/` in the harness is replaced by that text (textual inclusion: the real statements
    are compiled inside the harness function, which supplies their free names)."""
    spans = {}

    def define(m):
        rel, name, a, b = m.group(1), m.group(2), m.group(3).strip(), m.group(4).strip()
        src = open(os.path.join(repo, rel), encoding="utf-8").read()
        after_begin = a.startswith("@after ")   # span starts right after the begin anchor (anchor text itself excluded)
        if after_begin:
            a = a[len("@after "):].strip()
        ra = rs.anchor_regex(a)
        before = b.startswith("@before ")   # span ends right before the anchor (anchor text itself excluded)
        if before:
            b = b[len("@before "):].strip()
        rb = rs.anchor_regex(b) if b != "@block_end" else None
        ha = list(ra.finditer(src))
        if len(ha) != 1:
            raise KaniSetupError("span %s: begin anchor `%s` matches %d times in %s" % (name, a, len(ha), rel))
        s = ha[0].end() if after_begin else ha[0].start()
        if b == "@block_end":
            # up to (not including) the `}` that closes the block containing the begin anchor
            depth, e = 0, None
            for t in rs.lex(src[s:]):
                if t.kind == "punct" and t.text in rs.OPEN:
                    depth += 1
                elif t.kind == "punct" and t.text in rs.CLOSE:
                    depth -= 1
                    if depth < 0:
                        e = s + t.s
                        break
            if e is None:
                raise KaniSetupError("span %s: enclosing block end not found" % name)
        else:
            hb = [h for h in rb.finditer(src) if h.start() >= (ha[0].end() if not after_begin else s)]
            if not hb:
                raise KaniSetupError("span %s: end anchor `%s` not found after begin in %s" % (name, b, rel))
            e = hb[0].start() if before else hb[0].end()
        body = src[s:e]
        depth = 0
        for t in rs.lex(body):
            if t.kind == "punct" and t.text in rs.OPEN:
                depth += 1
            elif t.kind == "punct" and t.text in rs.CLOSE:
                depth -= 1
                if depth < 0:
                    raise KaniSetupError("span %s is not well nested" % name)
        if depth != 0:
            raise KaniSetupError("span %s is not well nested" % name)
        spans[name] = body
        spans_log.append({"name": name, "file": rel, "repo_lines": [src.count("\n", 0, s) + 1, src.count("\n", 0, e) + 1]})
        return "// span %s = %s lines %d-%d" % (name, rel, src.count("\n", 0, s) + 1, src.count("\n", 0, e) + 1)

    text = re.sub(r"^[ \t]*//@@\s+span\s+(\S+)\s+(\w+)\s*::\s*(.*?)\s*:::\s*(.*?)\s*$", define, text, flags=re.M)

    def define_fn(m):
        rel, name, path = m.group(1), m.group(2), m.group(3)
        src = open(os.path.join(repo, rel), encoding="utf-8").read()
        try:
            f = rs.find_fn(src, path)
        except rs.ScanError as e:
            raise KaniSetupError("fnspan %s: %s" % (name, e))
        spans[name] = src[f.start:f.end]
        spans_log.append({"name": name, "file": rel, "item": path, "repo_lines": [src.count("\n", 0, f.start) + 1, src.count("\n", 0, f.end) + 1]})
        return "// fnspan %s = %s %s" % (name, rel, path)

    text = re.sub(r"^[ \t]*//@@\s+fnspan\s+(\S+)\s+(\w+)\s+(\S+)\s*$", define_fn, text, flags=re.M)

    def paste(m):
        if m.group(1) not in spans:
            raise KaniSetupError("paste of undefined span %s" % m.group(1))
        body = spans[m.group(1)]
        for frm, to in re.findall(r"s/([^/]+)/([^/]*)/", m.group(2) or ""):
            if frm not in body:
                raise KaniSetupError("paste %s: substitution source `%s` not found" % (m.group(1), frm))
            cnt = body.count(frm)
            body = body.replace(frm, to)
            spans_log.append({"name": m.group(1), "substitution": {"from": frm, "to": to, "count": cnt}})
        return body

    return re.sub(r"/\*@@paste\s+(\w+)((?:\s+s/[^/]+/[^/]*/)*)\s*\*/", paste, text)


def prepare(repo, harness_files, scratch_parent=None, for_tests=False):
    """harness_files: list of paths to *.kani.rs files. Returns (scratch_dir, info)."""
    parent = scratch_parent or os.environ.get("VERIF_SCRATCH") or tempfile.gettempdir()
    scratch = tempfile.mkdtemp(prefix="llgv-kani-", dir=parent)
    info = {"appended": [], "spans": []}
    try:
        for d in ("toktrie", "parser"):
            shutil.copytree(os.path.join(repo, d), os.path.join(scratch, d), ignore=shutil.ignore_patterns("target", "*.bin"))
        shutil.copy(os.path.join(repo, "Cargo.lock"), os.path.join(scratch, "Cargo.lock"))
        root_toml = open(os.path.join(repo, "Cargo.toml")).read()
        m = re.search(r'rust-version\s*=\s*"([^"]+)"', root_toml)
        rv = m.group(1) if m else "1.87"
        with open(os.path.join(scratch, "Cargo.toml"), "w") as f:
            f.write('[workspace]\nmembers = ["toktrie", "parser"]\nresolver = "2"\n\n[workspace.package]\nrust-version = "%s"\n\n'
                    '[workspace.dependencies]\ntoktrie = { path = "toktrie" }\n\n[profile.dev]\ndebug = 0\n' % rv)
        os.makedirs(os.path.join(scratch, ".cargo"), exist_ok=True)
        with open(os.path.join(scratch, ".cargo", "config.toml"), "w") as f:
            f.write("[net]\noffline = true\n")
        # parser manifest: no dev-deps / benches, rlib only
        pm = os.path.join(scratch, "parser", "Cargo.toml")
        orig = open(pm).read()
        t = _strip_sections(orig, {"dev-dependencies", "bench", "build-dependencies"})
        if for_tests:
            # the crate's own unit tests (compiled together with the appended replay module) need `regex`
            m = re.search(r'(?m)^regex\s*=.*$', orig)
            if m:
                t += "\n[dev-dependencies]\n" + m.group(0) + "\n"
        t = re.sub(r'crate-type\s*=\s*\[[^\]]*\]', 'crate-type = ["rlib"]', t)
        t = re.sub(r'^cbindgen.*$', '', t, flags=re.M)
        t = re.sub(r'^generate-header.*$', '', t, flags=re.M)
        open(pm, "w").write(t)
        for sub in ("benches", "tests"):
            shutil.rmtree(os.path.join(scratch, "parser", sub), ignore_errors=True)
        bs = os.path.join(scratch, "parser", "build.rs")
        if os.path.exists(bs):
            os.remove(bs)
        for hf in harness_files:
            text = open(hf, encoding="utf-8").read()
            m = re.match(r"\s*//@@\s+append\s+(\S+)", text)
            if not m:
                raise KaniSetupError("%s: missing `//@@ append <file>` header" % hf)
            rel = m.group(1)
            dst = os.path.join(scratch, rel)
            if not os.path.exists(dst):
                raise KaniSetupError("%s: target %s does not exist in /repo" % (hf, rel))
            text = expand_spans(text, repo, info["spans"])
            with open(dst, "a", encoding="utf-8") as f:
                f.write("\n\n// ===== appended by /verif (%s) =====\n" % os.path.basename(hf))
                f.write(text)
            info["appended"].append({"harness_file": os.path.relpath(hf), "to": rel})
    except Exception:
        shutil.rmtree(scratch, ignore_errors=True)
        raise
    return scratch, info


_RES_RE = re.compile(r"^Checking harness (\S+?)\.\.\.", re.M)


def _parse_block(p):
    d = {"raw": p}
    m = re.search(r"VERIFICATION:-\s*(\w+)", p)
    d["status"] = m.group(1) if m else "UNKNOWN"
    m = re.search(r"Verification Time:\s*([\d.]+)s", p)
    d["time_s"] = float(m.group(1)) if m else None
    m = re.search(r"\*\* (\d+) of (\d+) failed", p)
    d["checks_failed"] = int(m.group(1)) if m else 0
    d["checks_total"] = int(m.group(2)) if m else None
    m = re.search(r"\*\* (\d+) of (\d+) cover properties satisfied", p)
    d["covers_sat"] = int(m.group(1)) if m else None
    d["covers_total"] = int(m.group(2)) if m else None
    d["failed"] = re.findall(r"(?m)^Failed Checks: (.*)$", p)
    d["failed_locs"] = re.findall(r'(?m)^\s*File: "([^"]+)", line (\d+), in (\S+)', p)
    d["unwind_fail"] = any("unwinding assertion" in f for f in d["failed"])
    d["stubs"] = re.findall(r"(?m)^\s*-\s*Stub: (.*)$", p)
    d["cbmc_error"] = bool(re.search(r"CBMC failed|CBMC timed out|out of memory|std::bad_alloc|SIGSEGV|unexpected", p, re.I)) and d["status"] == "UNKNOWN"
    return d


def parse_output(out):
    """Split cargo-kani output per harness (handles both sequential and `-j` thread-tagged output).
    Returns {short harness name: {...}}."""
    res = {}
    lines = out.split("\n")
    thread_h = {}   # thread id -> harness full name
    blocks = {}     # harness full name -> list of lines
    cur = None
    for ln in lines:
        m = re.match(r"^(?:Thread (\d+): )?Checking harness (\S+?)\.\.\.", ln)
        if m:
            tid, name = m.group(1), m.group(2)
            blocks.setdefault(name, [])
            if tid is None:
                cur = name
            else:
                thread_h[tid] = name
            continue
        m = re.match(r"^Thread (\d+):\s*$", ln)
        if m:
            cur = thread_h.get(m.group(1))
            continue
        if cur is not None:
            blocks[cur].append(ln)
            if ln.startswith("Verification Time:"):
                if thread_h:
                    cur = None
    for name, ls in blocks.items():
        d = _parse_block("\n".join(ls))
        d["full_name"] = name
        res[name.split("::")[-1]] = d
    return res


def run(scratch, crate, harnesses, extra_flags=(), timeout=1800, jobs=8, mem_gb=14, log=None):
    """Run cargo kani for the listed harnesses (exact names) in one invocation. Returns (results, raw_output, wall_s, timed_out)."""
    cmd = ["cargo", "kani", "-p", crate, "--output-format", "terse"]
    if jobs and jobs > 1 and not any("concrete-playback" in f for f in extra_flags):
        cmd += ["-j", str(jobs)]
    for h in harnesses:
        cmd += ["--harness", h]
    cmd += ["--exact"] if False else []
    cmd += list(extra_flags)
    env = dict(os.environ)
    env["CARGO_NET_OFFLINE"] = "true"
    env.pop("RUSTUP_TOOLCHAIN", None)
    env.pop("RUSTFLAGS", None)
    t0 = time.time()
    # ulimit: unlimited stack (CBMC recursion), virtual memory cap as OOM guard
    # ulimit -v is per process: each cbmc/kani-driver process gets at most mem_gb of address space (OOM guard)
    shell = "ulimit -s unlimited 2>/dev/null; ulimit -v %d 2>/dev/null; exec %s" % (
        mem_gb * 1024 * 1024, " ".join("'%s'" % c for c in cmd))
    p = subprocess.Popen(["bash", "-c", shell], cwd=scratch, env=env, stdout=subprocess.PIPE, stderr=subprocess.STDOUT, text=True,
                         start_new_session=True)
    timed_out = False
    try:
        out, _ = p.communicate(timeout=timeout)
    except subprocess.TimeoutExpired:
        timed_out = True
        try:
            os.killpg(p.pid, 9)
        except OSError:
            pass
        out, _ = p.communicate()
    wall = time.time() - t0
    if log:
        with open(log, "w") as f:
            f.write("$ " + " ".join(cmd) + "\n" + out)
    return parse_output(out), out, wall, timed_out, p.returncode


def cleanup(scratch):
    shutil.rmtree(scratch, ignore_errors=True)
