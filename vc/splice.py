"""Build a Verus file from a unit template: real item text from /repo + overlaid ghost contracts.

Template directives (each on its own line):

  //@@ fn <repo-file> <ItemPath> [opts]     start of a function block; ends at `//@ end`
       opts: name=<newname>  (rename the fn, e.g. to lift a method into a free fn is NOT supported; only rename)
             drop_attrs       (drop #[...] attributes of the item)
             vis=<text>       (replace leading `pub`/`pub(crate)` qualifier text; logged)
     //@ ret NAME            name the return value:  -> T   becomes   -> (NAME: T)
     //@ attr                lines added before the fn (e.g. #[verifier::external_body])
     //@ spec                lines inserted between signature and body
     //@ loop N              lines inserted before the body '{' of the N-th loop (1-based)
     //@ before ANCHOR       lines inserted before the (unique) occurrence of ANCHOR in the body
     //@ after ANCHOR        lines inserted after it
     //@ then_end IFHEAD     lines inserted at the end of the then-block of the (unique) `if` whose head text is IFHEAD
     //@ else_end IFHEAD     ... at the end of its else-block (then_start / else_start: at the beginning)
     //@ body_start          lines inserted right after the body '{'
     //@ body_end            lines inserted right before the body's closing '}' (only for bodies without a tail expression)
       (anchors are matched against the body text *after* rewrites)
     //@ rewrite RULE :: FROM ==> TO     non-ghost rewrite (literal, whitespace-insensitive), every occurrence; logged
     //@ sigrewrite RULE :: FROM ==> TO  same, applied to the signature
     //@ end
  //@@ struct <repo-file> <Name> [fields=a,b,c] [derive=Clone,Copy]
       struct text verbatim without attributes, optionally only the listed fields; field visibility widened to pub (logged)
  //@@ const <repo-file> <NAME> [owner=<Type>]
  //@@ sigcheck <repo-file> <ItemPath> :: <signature text>
       fails (exit 2) unless the real item's signature is token-equal to the given text

All insertions are ghost-only by convention (requires/ensures/invariant/decreases/proof/assert/ghost lets);
the rewrites are the only edits to executable tokens and each one is recorded.
A self-check removes the insertions, undoes the rewrites and compares tokens with /repo.
"""
import os
import re
from . import rustscan as rs


class SpliceError(Exception):
    pass


def _read(repo, rel):
    p = os.path.join(repo, rel)
    try:
        with open(p, encoding="utf-8") as f:
            return f.read()
    except OSError as e:
        raise SpliceError("cannot read %s: %s" % (p, e))


def _apply_rewrites(text, rewrites, log, fn, where):
    for rule, frm, to in rewrites:
        rx = rs.anchor_regex(frm)
        cnt = len(rx.findall(text))
        if cnt == 0:
            raise SpliceError("%s: rewrite %s: pattern `%s` not found in %s" % (fn, rule, frm, where))
        text = rx.sub(lambda m: to, text)
        log.append({"rule": rule, "fn": fn, "where": where, "before": frm, "after": to, "count": cnt})
    return text


def _undo_check(orig, new_plain, rewrites, fn):
    """new_plain = text after rewrites with no insertions. Check that applying the rewrites to orig gives it."""
    t = orig
    for rule, frm, to in rewrites:
        t = rs.anchor_regex(frm).sub(lambda m: to, t)
    if rs.norm_tokens(t) != rs.norm_tokens(new_plain):
        raise SpliceError("%s: self-check failed: spliced text minus insertions differs from /repo" % fn)


def splice_fn(repo, rel, path, sections, opts, log, meta):
    src = _read(repo, rel)
    try:
        f = rs.find_fn(src, path)
    except rs.ScanError as e:
        raise SpliceError("%s %s: %s" % (rel, path, e))
    if not f.has_body:
        raise SpliceError("%s %s: no body" % (rel, path))
    attrs = src[f.start:f.sig_start]
    sig = src[f.sig_start:f.body_open]
    body = src[f.body_open:f.end]  # includes braces
    span = [a for k, a, r in sections if k == "span"]
    if span:
        # statement span of the real fn pasted as the body of a function whose signature is given by the unit (`sig`), optionally
        # inside a `wrap` template with the placeholder @SPAN@.  begin ::: end | @block_end
        mm = re.match(r"^(.*?)\s*:::\s*(.*)$", span[0])
        if not mm:
            raise SpliceError("%s: bad span directive" % path)
        hits = list(rs.anchor_regex(mm.group(1)).finditer(body))
        if len(hits) != 1:
            raise SpliceError("%s: span begin `%s` matches %d times (need exactly 1)" % (path, mm.group(1), len(hits)))
        s0 = hits[0].start()
        if mm.group(2).strip() == "@block_end":
            toks = rs.lex(body)
            depth, e0 = 0, None
            for t in toks:
                if t.s < s0:
                    continue
                if t.text in "{[(" and len(t.text) == 1:
                    depth += 1
                elif t.text in "}])" and len(t.text) == 1:
                    if depth == 0:
                        e0 = t.s
                        break
                    depth -= 1
            if e0 is None:
                raise SpliceError("%s: span: enclosing block end not found" % path)
        elif mm.group(2).strip() == "@stmt_end":
            # the statement that starts at `begin` and ends with its first brace block (for / while / if without else / loop)
            toks = rs.lex(body)
            k = next((i for i, t in enumerate(toks) if t.s >= s0 and t.text == "{"), None)
            if k is None:
                raise SpliceError("%s: span: no block after begin" % path)
            c = rs.match_close(toks, k)
            # if .. {} else if .. {} else {}: take the whole chain
            while c + 1 < len(toks) and toks[c + 1].text == "else":
                k = next((i for i in range(c + 2, len(toks)) if toks[i].text == "{"), None)
                if k is None:
                    break
                c = rs.match_close(toks, k)
            e0 = toks[c].e
        else:
            h2 = [h for h in rs.anchor_regex(mm.group(2)).finditer(body) if h.start() >= s0]
            if len(h2) != 1:
                raise SpliceError("%s: span end `%s` matches %d times after begin (need exactly 1)" % (path, mm.group(2), len(h2)))
            e0 = h2[0].end()
        span_text = body[s0:e0]
        sigs = [t for k, a, t in sections if k == "sig"]
        if len(sigs) != 1:
            raise SpliceError("%s: span needs exactly one `sig` section" % path)
        wraps = [t for k, a, t in sections if k == "wrap"]
        wrap = wraps[0] if wraps else "@SPAN@"
        if wrap.count("@SPAN@") != 1:
            raise SpliceError("%s: wrap needs exactly one @SPAN@" % path)
        log.append({"rule": "statement-span", "fn": path, "where": "lines %d-%d of %s" % (
            src.count("\n", 0, f.body_open + s0) + 1, src.count("\n", 0, f.body_open + e0) + 1, rel),
            "before": "statements inside fn " + f.name, "after": "body of `" + " ".join(sigs[0].split()) + "`, wrapped as `" +
            " ".join(wrap.split()) + "`", "count": 1})
        sig = sigs[0].rstrip() + "\n"
        attrs = ""
        opts = dict(opts)
        opts.setdefault("_span_name", re.search(r"\bfn\s+(\w+)", sig).group(1))
        opts["_span_lines"] = [src.count("\n", 0, f.body_open + s0) + 1, src.count("\n", 0, f.body_open + e0) + 1]
        body = "{\n" + wrap.replace("@SPAN@", span_text) + "\n}"
    orig_tokens_src = sig + body

    sig_rw = [r for k, a, r in sections if k == "sigrewrite"]
    body_rw = [r for k, a, r in sections if k == "rewrite"]

    # --- signature
    sig_plain = _apply_rewrites(sig, sig_rw, log, path, "signature") if sig_rw else sig
    sig_new = sig_plain
    retname = [a for k, a, r in sections if k == "ret"]
    if retname:
        if f.ret_span is None and not span:
            raise SpliceError("%s: `ret` given but fn has no return type" % path)
        if sig_rw or span:
            # recompute the return type span on the rewritten signature
            nm = re.search(r"\bfn\s+(\w+)", sig_plain).group(1)
            f2 = rs.find_fn("impl X { " + sig_plain + "{} }", "X::" + nm)
            base = len("impl X { ")
            a, b = f2.ret_span[0] - base, f2.ret_span[1] - base
        else:
            a, b = f.ret_span[0] - f.sig_start, f.ret_span[1] - f.sig_start
        sig_new = sig_plain[:a] + "(" + retname[0] + ": " + sig_plain[a:b] + ")" + sig_plain[b:]
    if "name" in opts:
        sig_new = re.sub(r"\bfn\s+" + re.escape(f.name) + r"\b", "fn " + opts["name"], sig_new, count=1)
        log.append({"rule": "rename", "fn": path, "where": "signature", "before": f.name, "after": opts["name"], "count": 1})
    if "vis" in opts:
        m = re.match(r"\s*pub(\s*\([^)]*\))?\s*", sig_new)
        old = m.group(0) if m else ""
        sig_new = opts["vis"].replace("_", " ").strip() + " " + sig_new[len(old):] if opts["vis"] != "none" else sig_new[len(old):]
        log.append({"rule": "visibility", "fn": path, "where": "signature", "before": old.strip(), "after": opts["vis"], "count": 1})

    # --- body
    body_plain = _apply_rewrites(body, body_rw, log, path, "body") if body_rw else body
    _undo_check(orig_tokens_src, sig_plain + body_plain, sig_rw + body_rw, path)

    inserts = []  # (offset, order, text)
    order = 0
    heads = None
    for kind, arg, text in sections:
        order += 1
        if kind == "loop":
            if heads is None:
                heads = rs.loop_heads(body_plain)
            n = int(arg)
            if not (1 <= n <= len(heads)):
                raise SpliceError("%s: loop %d not found (%d loops in body)" % (path, n, len(heads)))
            inserts.append((heads[n - 1], order, "\n" + text + "\n"))
        elif kind == "loop_body_end":
            if heads is None:
                heads = rs.loop_heads(body_plain)
            n = int(arg)
            if not (1 <= n <= len(heads)):
                raise SpliceError("%s: loop %d not found (%d loops in body)" % (path, n, len(heads)))
            toks = rs.lex(body_plain)
            k = next((i for i, t in enumerate(toks) if t.s >= heads[n - 1] and t.text == "{"), None)
            if k is None:
                raise SpliceError("%s: loop %d has no body block" % (path, n))
            inserts.append((toks[rs.match_close(toks, k)].s, order, "\n" + text + "\n"))
        elif kind in ("before", "after"):
            occ = None
            m = re.match(r"^(.*)\s+#(\d+)$", arg)
            if m:
                arg, occ = m.group(1), int(m.group(2))
            hits = list(rs.anchor_regex(arg).finditer(body_plain))
            if occ is None:
                if len(hits) != 1:
                    raise SpliceError("%s: anchor `%s` matches %d times (need exactly 1)" % (path, arg, len(hits)))
                h = hits[0]
            else:
                if occ > len(hits) or occ < 1:
                    raise SpliceError("%s: anchor `%s` occurrence %d not found (%d hits)" % (path, arg, occ, len(hits)))
                h = hits[occ - 1]
            inserts.append((h.start() if kind == "before" else h.end(), order, "\n" + text + "\n"))
        elif kind in ("then_end", "else_end", "then_start", "else_start"):
            hits = list(rs.anchor_regex(arg).finditer(body_plain))
            if len(hits) != 1:
                raise SpliceError("%s: if-anchor `%s` matches %d times (need exactly 1)" % (path, arg, len(hits)))
            toks = rs.lex(body_plain)
            # first '{' at/after the end of the anchor match = then-block
            k = next((i for i, t in enumerate(toks) if t.s >= hits[0].end() and t.text == "{"), None)
            if k is None:
                raise SpliceError("%s: no block after if-anchor `%s`" % (path, arg))
            c = rs.match_close(toks, k)
            if kind.startswith("else"):
                if c + 2 >= len(toks) or toks[c + 1].text != "else" or toks[c + 2].text != "{":
                    raise SpliceError("%s: if-anchor `%s` has no plain else block" % (path, arg))
                k = c + 2
                c = rs.match_close(toks, k)
            pos = toks[c].s if kind.endswith("_end") else toks[k].e
            inserts.append((pos, order, "\n" + text + "\n"))
        elif kind == "body_start":
            inserts.append((1, order, "\n" + text + "\n"))
        elif kind == "body_end":
            inserts.append((len(body_plain) - 1, order, "\n" + text + "\n"))
    inserts.sort(key=lambda x: (x[0], x[1]))
    out, last = [], 0
    for off, _, text in inserts:
        out.append(body_plain[last:off])
        out.append(text)
        last = off
    out.append(body_plain[last:])
    body_new = "".join(out)

    spec = "\n".join(t for k, a, t in sections if k == "spec")
    attr = "\n".join(t for k, a, t in sections if k == "attr")
    keep_attrs = "" if "drop_attrs" in opts else attrs
    if "drop_attrs" in opts and attrs.strip():
        log.append({"rule": "drop_attrs", "fn": path, "where": "attributes", "before": " ".join(attrs.split()), "after": "", "count": 1})
    res = (attr + "\n" if attr else "") + keep_attrs + sig_new.rstrip() + "\n" + (spec + "\n" if spec else "") + body_new
    meta.append({"file": rel, "item": path + (" (statement span)" if span else ""),
                 "repo_lines": opts.get("_span_lines") or [src.count("\n", 0, f.start) + 1, src.count("\n", 0, f.end) + 1],
                 "name": opts.get("_span_name") or opts.get("name", f.name)})
    return res


def splice_struct(repo, rel, name, opts, log, meta):
    src = _read(repo, rel)
    try:
        st, ds, end = rs.find_struct(src, name)
    except rs.ScanError as e:
        raise SpliceError("%s: %s" % (rel, e))
    text = src[ds:end]
    log.append({"rule": "drop_attrs", "fn": name, "where": "struct", "before": " ".join(src[st:ds].split()), "after": opts.get("derive", ""), "count": 1})
    ob = text.find("{")
    if ob < 0:
        raise SpliceError("%s: tuple/unit struct not supported" % name)
    head, inner = text[:ob], text[ob + 1:text.rfind("}")]
    # split fields at top-level commas
    toks = rs.lex(inner)
    fields, depth, cur = [], 0, None
    angle = 0
    for t in toks:
        if cur is None:
            cur = t.s
        if t.text in rs.OPEN:
            depth += 1
        elif t.text in rs.CLOSE:
            depth -= 1
        elif t.text == "<":
            angle += 1
        elif t.text == ">":
            angle -= 1
        elif t.text == "," and depth == 0 and angle == 0:
            fields.append(inner[cur:t.s].strip())
            cur = None
    if cur is not None and inner[cur:].strip():
        fields.append(inner[cur:].strip())
    parsed = []
    for fl in fields:
        # strip attributes + visibility
        s = fl
        while s.startswith("#"):
            k = s.find("]")
            s = s[k + 1:].strip()
        s = re.sub(r"^pub(\s*\([^)]*\))?\s+", "", s)
        nm = s.split(":", 1)[0].strip()
        parsed.append((nm, s))
    want = opts.get("fields")
    if want:
        want = want.split(",")
        names = [p[0] for p in parsed]
        for w in want:
            if w not in names:
                raise SpliceError("struct %s: field %s not in /repo (has %s)" % (name, w, names))
        dropped = [n for n in names if n not in want]
        parsed = [p for p in parsed if p[0] in want]
        if dropped:
            log.append({"rule": "drop_fields", "fn": name, "where": "struct", "before": ",".join(dropped), "after": "", "count": len(dropped)})
    body = "".join("    pub %s,\n" % p[1] for p in parsed)
    if opts.get("ghost"):
        # ghost=name:Type[;name2:Type2]  -- spec-only fields added to the extracted struct (logged)
        for g in opts["ghost"].split(";"):
            nm, ty = g.split(":", 1)
            body += "    pub ghost %s: %s,\n" % (nm, ty.replace("~", " "))
        log.append({"rule": "ghost-field", "fn": name, "where": "struct", "before": "", "after": opts["ghost"], "count": 1})
    head = re.sub(r"^pub(\s*\([^)]*\))?\s+", "", head.strip())
    derive = "#[derive(%s)]\n" % opts["derive"] if opts.get("derive") else ""
    meta.append({"file": rel, "item": "struct " + name, "repo_lines": [src.count("\n", 0, st) + 1, src.count("\n", 0, end) + 1], "name": name})
    return derive + "pub " + head + " {\n" + body + "}\n"


def splice_const(repo, rel, name, opts, log, meta):
    src = _read(repo, rel)
    try:
        s, e = rs.find_const(src, name, opts.get("owner"))
    except rs.ScanError as e2:
        raise SpliceError("%s: %s" % (rel, e2))
    meta.append({"file": rel, "item": "const " + name, "repo_lines": [src.count("\n", 0, s) + 1, src.count("\n", 0, e) + 1], "name": name})
    text = src[s:e]
    m = re.match(r"\s*pub\s*\([^)]*\)\s*", text)
    if m:
        log.append({"rule": "visibility", "fn": name, "where": "const", "before": m.group(0).strip(), "after": "pub", "count": 1})
        text = "pub " + text[m.end():]
    elif not re.match(r"\s*pub\b", text):
        text = "pub " + text
        log.append({"rule": "visibility", "fn": name, "where": "const", "before": "(private)", "after": "pub", "count": 1})
    return text


def sigcheck(repo, rel, path, want):
    src = _read(repo, rel)
    try:
        f = rs.find_fn(src, path)
    except rs.ScanError as e:
        raise SpliceError("%s %s: %s" % (rel, path, e))
    got = src[f.sig_start:f.body_open]
    if rs.norm_tokens(got) != rs.norm_tokens(want.rstrip(";")):
        raise SpliceError("sigcheck %s: /repo has `%s`, unit assumes `%s`" % (path, " ".join(got.split()), want))


def _parse_opts(words):
    o = {}
    for w in words:
        if "=" in w:
            k, v = w.split("=", 1)
            o[k] = v
        else:
            o[w] = True
    return o


def _expand_includes(text, units_dir, depth=0):
    if depth > 4:
        raise SpliceError("include nesting too deep")
    out = []
    for ln in text.split("\n"):
        m = re.match(r"^\s*//@@\s+include\s+(\S+)\s*$", ln)
        if m:
            p = os.path.join(units_dir, m.group(1))
            try:
                inc = open(p, encoding="utf-8").read()
            except OSError as e:
                raise SpliceError("include %s: %s" % (m.group(1), e))
            out.append("// ---- begin include %s ----" % m.group(1))
            out.append(_expand_includes(inc, units_dir, depth + 1))
            out.append("// ---- end include %s ----" % m.group(1))
        else:
            out.append(ln)
    return "\n".join(out)


def build(template_text, repo, units_dir=None):
    """Returns (verus_source, rewrites_log, items_meta).  `//@@ include <file relative to units/>` is expanded first."""
    if units_dir is None:
        units_dir = os.path.join(os.path.dirname(os.path.dirname(os.path.abspath(__file__))), "units")
    template_text = _expand_includes(template_text, units_dir)
    lines = template_text.split("\n")
    out = []
    log, meta = [], []
    i = 0
    while i < len(lines):
        ln = lines[i]
        m = re.match(r"^\s*//@@\s+(\w+)\s+(.*)$", ln)
        if not m:
            out.append(ln)
            i += 1
            continue
        kind, rest = m.group(1), m.group(2).strip()
        if kind == "fn":
            words = rest.split()
            rel, path, opts = words[0], words[1], _parse_opts(words[2:])
            sections = []
            i += 1
            cur = None
            while i < len(lines):
                l2 = lines[i]
                m2 = re.match(r"^\s*//@\s+(\w+)\s*(.*)$", l2)
                if m2:
                    if cur is not None:
                        sections.append((cur[0], cur[1], "\n".join(cur[2])))
                        cur = None
                    k2, a2 = m2.group(1), m2.group(2).strip()
                    if k2 == "end":
                        break
                    if k2 in ("rewrite", "sigrewrite"):
                        mm = re.match(r"^(\w+)\s*::\s*(.*?)\s*==>\s*(.*)$", a2)
                        if not mm:
                            raise SpliceError("bad rewrite directive: " + l2)
                        sections.append((k2, None, (mm.group(1), mm.group(2), mm.group(3))))
                    elif k2 == "ret":
                        sections.append(("ret", a2, None))
                    elif k2 == "span":
                        sections.append(("span", a2, None))
                    elif k2 in ("spec", "attr", "sig", "wrap", "loop", "loop_body_end", "before", "after", "body_start", "body_end", "then_end", "else_end", "then_start", "else_start"):
                        cur = (k2, a2, [])
                    else:
                        raise SpliceError("unknown directive: " + l2)
                else:
                    if cur is None:
                        if l2.strip():
                            raise SpliceError("text outside a section in fn block %s: %s" % (path, l2))
                    else:
                        cur[2].append(l2)
                i += 1
            else:
                raise SpliceError("unterminated fn block " + path)
            text = splice_fn(repo, rel, path, sections, opts, log, meta)
            start_line = len("\n".join(out).split("\n")) + 1 if out else 1
            out.append(text)
            end_line = len("\n".join(out).split("\n"))
            meta[-1]["unit_lines"] = [start_line, end_line]
            i += 1
            continue
        if kind == "constx":
            # exec const with a contract: `const N: T = EXPR;` -> `pub exec const N: T <spec> { <proof> EXPR }` (EXPR verbatim)
            words = rest.split()
            rel, name, opts = words[0], words[1], _parse_opts(words[2:])
            secs, cur = {"spec": [], "body_start": []}, None
            i += 1
            while i < len(lines):
                m2 = re.match(r"^\s*//@\s+(\w+)\s*(.*)$", lines[i])
                if m2:
                    if m2.group(1) == "end":
                        break
                    if m2.group(1) not in secs:
                        raise SpliceError("constx: unknown section " + lines[i])
                    cur = m2.group(1)
                elif cur:
                    secs[cur].append(lines[i])
                i += 1
            else:
                raise SpliceError("unterminated constx block " + name)
            text = splice_const(repo, rel, name, opts, log, meta)
            m3 = re.match(r"(?s)^\s*(?:pub(?:\s*\([^)]*\))?\s+)?const\s+(\w+)\s*:\s*([^=]+?)\s*=\s*(.*);\s*$", text)
            if not m3:
                raise SpliceError("constx %s: cannot parse const item" % name)
            out.append("pub exec const %s: %s\n%s\n{\n%s\n    %s\n}" % (m3.group(1), m3.group(2), "\n".join(secs["spec"]), "\n".join(secs["body_start"]), m3.group(3)))
            log.append({"rule": "exec-const", "fn": name, "where": "const", "before": "const N: T = E;", "after": "exec const N: T ensures .. { proof; E }", "count": 1})
            i += 1
            continue
        if kind == "struct":
            words = rest.split()
            out.append(splice_struct(repo, words[0], words[1], _parse_opts(words[2:]), log, meta))
        elif kind == "const":
            words = rest.split()
            out.append(splice_const(repo, words[0], words[1], _parse_opts(words[2:]), log, meta))
        elif kind == "sigcheck":
            mm = re.match(r"^(\S+)\s+(\S+)\s*::\s*(.*)$", rest)
            if not mm:
                raise SpliceError("bad sigcheck: " + ln)
            sigcheck(repo, mm.group(1), mm.group(2), mm.group(3))
            meta.append({"file": mm.group(1), "item": "sigcheck " + mm.group(2), "name": mm.group(2)})
        else:
            raise SpliceError("unknown //@@ directive: " + ln)
        i += 1
    return "\n".join(out), log, meta
