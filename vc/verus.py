"""Run Verus on a spliced unit file and classify the outcome per function."""
import json
import os
import re
import subprocess
import time

VERIF_KINDS = [
    ("postcondition not satisfied", "postcondition"),
    ("precondition not satisfied", "precondition-at-call"),
    ("invariant not satisfied at end of loop body", "loop-invariant-preserved"),
    ("invariant not satisfied before loop", "loop-invariant-established"),
    ("loop invariant not satisfied", "loop-invariant"),
    ("assertion failed", "assertion"),
    ("possible arithmetic underflow/overflow", "arithmetic-overflow"),
    ("possible division by zero", "division-by-zero"),
    ("decreases not satisfied", "termination"),
    ("could not prove termination", "termination"),
    ("possible bit shift underflow/overflow", "shift-overflow"),
    ("index out of bounds", "bounds"),
    ("unreachable", "unreachable-reached"),
    ("assert_by_compute", "assertion"),
    ("bit_vector", "assertion"),
]


def fn_lines(src):
    """[(start_line, name)] for every `fn name` in the file, for mapping error locations to functions.
    The owner (impl type) is tracked to qualify method names."""
    res = []
    owner_stack = []
    depth = 0
    for ln_no, ln in enumerate(src.split("\n"), 1):
        s = ln.strip()
        if s.startswith("//"):
            continue
        if re.match(r"^(?:pub\s+)?(?:unsafe\s+)?impl\b", s):
            # strip (possibly nested) generic argument lists, then read `impl [Trait for] Type`
            flat, dep = [], 0
            for ch in s:
                if ch == "<":
                    dep += 1
                elif ch == ">":
                    dep -= 1
                elif dep == 0:
                    flat.append(ch)
            m = re.match(r"^(?:pub\s+)?(?:unsafe\s+)?impl\s+(?:(\w+)\s+for\s+)?(\w+)", "".join(flat))
            if m:
                owner_stack.append((depth, m.group(2)))
        m = re.match(r"^(?:pub\s+)?trait\s+(\w+)", s)
        if m:
            owner_stack.append((depth, m.group(1)))
        m = re.search(r"\bfn\s+(\w+)", s)
        if m and not s.startswith("//") and "spec fn" not in s.split("fn " + m.group(1))[0][-8:] + "":
            own = owner_stack[-1][1] if owner_stack else None
            res.append((ln_no, (own + "::" if own else "") + m.group(1)))
        depth += ln.count("{") - ln.count("}")
        while owner_stack and depth <= owner_stack[-1][0]:
            owner_stack.pop()
    return res


def run(path, rlimit=None, timeout=600, extra=(), log=None, threads=None):
    cmd = ["verus", path, "--output-json", "--time", "--triggers-mode", "silent", "--multiple-errors", "4"]
    if rlimit:
        cmd += ["--rlimit", str(rlimit)]
    if threads:
        cmd += ["--num-threads", str(threads)]
    cmd += list(extra)
    t0 = time.time()
    try:
        p = subprocess.run(cmd, cwd=os.path.dirname(path), capture_output=True, text=True, timeout=timeout)
        out, err, rc, to = p.stdout, p.stderr, p.returncode, False
    except subprocess.TimeoutExpired as e:
        out, err, rc, to = (e.stdout or ""), (e.stderr or ""), -1, True
        if isinstance(out, bytes):
            out = out.decode("utf-8", "replace")
        if isinstance(err, bytes):
            err = err.decode("utf-8", "replace")
    wall = time.time() - t0
    if log:
        with open(log, "w") as f:
            f.write("$ " + " ".join(cmd) + "\n--- stdout ---\n" + out + "\n--- stderr ---\n" + err)
    return {"cmd": " ".join(cmd), "stdout": out, "stderr": err, "rc": rc, "timed_out": to, "wall_s": wall}


def _split_errors(stderr):
    """Yield (headline, first_location_line, block_text) for each `error:` block."""
    blocks, cur = [], None
    for ln in stderr.split("\n"):
        if re.match(r"^(error|warning|note)(\[[A-Z0-9]+\])?:", ln):
            if cur:
                blocks.append(cur)
            cur = [ln]
        elif cur is not None:
            cur.append(ln)
    if cur:
        blocks.append(cur)
    res = []
    for b in blocks:
        head = b[0]
        if not head.startswith("error"):
            continue
        loc = None
        for ln in b[1:]:
            m = re.match(r"^\s*-->\s*(\S+?):(\d+):(\d+)", ln)
            if m:
                loc = (m.group(1), int(m.group(2)))
                break
        res.append((head, loc, "\n".join(b)))
    return res


def classify(r, src, unit_file):
    """Returns dict: status in {ok, failed, undecided}, functions [...], errors [...]."""
    res = {"status": "undecided", "functions": [], "errors": [], "reason": None, "verified": 0, "smt_ms": None}
    if r["timed_out"]:
        res["reason"] = "verus wall-clock timeout"
        return res
    try:
        j = json.loads(r["stdout"])
    except Exception:
        res["reason"] = "verus produced no JSON (crash or usage error): " + r["stderr"][-400:]
        return res
    vr = j.get("verification-results", {})
    res["verified"] = vr.get("verified", 0)
    fl = fn_lines(src)
    base = os.path.basename(unit_file)

    def fn_at(line):
        name = None
        for (l, n) in fl:
            if l <= line:
                name = n
            else:
                break
        return name

    hard = []
    errs = []
    for head, loc, block in _split_errors(r["stderr"]):
        msg = re.sub(r"^error(\[[A-Z0-9]+\])?:\s*", "", head)
        if msg.startswith("aborting due to") or msg.startswith("could not compile"):
            continue
        kind = None
        for pat, k in VERIF_KINDS:
            if pat in msg:
                kind = k
                break
        rlimit = "Resource limit (rlimit) exceeded" in block or "rlimit" in msg
        fn = fn_at(loc[1]) if loc and os.path.basename(loc[0]) == base else None
        e = {"msg": msg, "kind": kind, "fn": fn, "line": loc[1] if loc else None, "rlimit": rlimit, "text": block[:1500]}
        if rlimit:
            e["kind"] = "rlimit"
        errs.append(e)
        if kind is None and not rlimit:
            hard.append(e)
    res["errors"] = errs
    # per-function breakdown
    funcs = {}
    try:
        for mod in j["times-ms"]["smt"]["smt-run-module-times"]:
            for fb in mod.get("function-breakdown", []):
                nm = fb["function"].split("::", 1)[1] if "::" in fb["function"] else fb["function"]
                mode = fb.get("mode:", fb.get("mode"))
                d = funcs.setdefault(nm, {"name": nm, "mode": mode, "success": True, "time_us": 0, "rlimit": 0})
                d["success"] = d["success"] and bool(fb.get("success"))
                d["time_us"] += fb.get("time-micros", 0)
                d["rlimit"] += fb.get("rlimit", 0)
        res["smt_ms"] = j["times-ms"]["smt"]["total"]
        res["total_ms"] = j["times-ms"]["total"]
    except Exception:
        pass
    res["functions"] = list(funcs.values())
    if vr.get("encountered-vir-error") or (vr.get("encountered-error") and not funcs) or hard:
        res["reason"] = "unit does not compile under Verus (type error / unsupported construct / lost anchor): " + \
            "; ".join(e["msg"] for e in hard[:3])
        return res
    if not funcs and not vr.get("success"):
        res["reason"] = "no per-function results"
        return res
    res["status"] = "ok" if vr.get("success") and vr.get("errors", 0) == 0 else "failed"
    return res
