"""/verif/check <PROPERTY_ID> [--tier quick|thorough] [--replay FILE] [--repo DIR] [--unit U] [--keep]

Decides one property by discharging the contract obligations registered for it (registry.json) on the
current working tree of /repo.  Exit 0: all obligations discharged (or only KNOWN-FINDINGs);
exit 1: `VIOLATION property=<id> replay=<path>` for each failed obligation; exit 2: UNDECIDED (tool limit,
lost anchor, unsupported construct, vacuity guard) -- never an alarm.
"""
import argparse
import concurrent.futures as cf
import json
import os
import re
import shutil
import subprocess
import sys
import time

from . import splice, verus, kani

ROOT = os.path.dirname(os.path.dirname(os.path.abspath(__file__)))


def load_json(p):
    with open(p) as f:
        return json.load(f)


def unit_dir(u):
    return os.path.join(ROOT, "units", u)


def scan_trusted(text):
    """Mechanical scan for unchecked assumptions in a unit source."""
    found = []
    for ln_no, ln in enumerate(text.split("\n"), 1):
        s = ln.strip()
        if s.startswith("//"):
            continue
        for pat, label in ((r"#\[verifier::external_body\]", "external_body"), (r"\bassume_specification\b", "assume_specification"),
                           (r"\bassume\s*\(", "assume"), (r"\badmit\s*\(", "admit"), (r"#\[verifier::external\]", "external"),
                           (r"\buninterp\s+spec\s+fn", "uninterp spec fn"), (r"kani::assume\s*\(", "kani::assume"),
                           (r"kani::stub\b", "kani::stub"), (r"#\[verifier::axiom\]|\baxiom\s+fn\b", "axiom")):
            if re.search(pat, s):
                found.append("%s @line %d: %s" % (label, ln_no, s[:140]))
    return found


# ------------------------------------------------------------------ Verus units

def run_verus_unit(u, cfg, repo, tier, work):
    t0 = time.time()
    obl = []
    info = {"unit": u, "engine": "verus", "rewrites": [], "items": [], "trusted_scan": [], "cmd": None}
    tpl = open(os.path.join(unit_dir(u), cfg.get("template", "unit.rs"))).read()
    try:
        src, log, meta = splice.build(tpl, repo)
    except splice.SpliceError as e:
        obl.append({"id": u + "/splice", "unit": u, "engine": "verus", "status": "undecided", "kind": "setup",
                    "detail": "extraction failed: %s" % e})
        info["wall_s"] = time.time() - t0
        return obl, info
    path = os.path.join(work, u + ".rs")
    with open(path, "w") as f:
        f.write(src)
    info["rewrites"], info["items"] = log, meta
    info["trusted_scan"] = scan_trusted(src)
    rl = cfg.get("rlimit_thorough" if tier == "thorough" else "rlimit", cfg.get("rlimit", 30))
    r = verus.run(path, rlimit=rl, timeout=cfg.get("timeout", 900), log=os.path.join(work, u + ".verus.log"), threads=cfg.get("threads", 4))
    info["cmd"] = r["cmd"].replace(path, "<spliced %s.rs>" % u)
    c = verus.classify(r, src, path)
    info["smt_ms"] = c.get("smt_ms")
    info["verus_wall_s"] = r["wall_s"]
    if c["status"] == "undecided":
        obl.append({"id": u + "/verus", "unit": u, "engine": "verus", "status": "undecided", "kind": "setup", "detail": c["reason"]})
        info["wall_s"] = time.time() - t0
        return obl, info
    real_names = {}
    for m in meta:
        if "unit_lines" in m:
            real_names[m["name"]] = m
    errs_by_fn = {}
    for e in c["errors"]:
        errs_by_fn.setdefault(e["fn"], []).append(e)
    seen = set()
    for f in c["functions"]:
        if f["mode"] not in ("exec", "proof"):
            continue
        nm = f["name"]
        short = nm.split("::")[-1]
        seen.add(nm)
        must_fail = short.startswith("must_fail_")
        es = errs_by_fn.get(nm, []) or errs_by_fn.get(short, [])
        o = {"id": "%s/%s" % (u, nm), "unit": u, "engine": "verus", "fn": nm, "mode": f["mode"],
             "real_code": short in real_names, "time_ms": round(f["time_us"] / 1000.0, 1), "rlimit_used": f["rlimit"],
             "kind": "must_fail" if must_fail else "proved"}
        if short in real_names:
            o["source"] = "%s:%d-%d" % (real_names[short]["file"], real_names[short]["repo_lines"][0], real_names[short]["repo_lines"][1])
        if must_fail:
            if f["success"]:
                o["status"], o["detail"] = "undecided", "vacuity guard: a deliberately false contract verified"
            else:
                o["status"] = "expected_fail_ok"
        elif f["success"]:
            o["status"] = "discharged"
        else:
            if es and all(e["rlimit"] for e in es):
                o["status"], o["detail"] = "undecided", "solver resource limit exceeded"
            else:
                o["status"] = "failed"
                o["failed_kinds"] = sorted(set(e["kind"] for e in es if e["kind"])) or ["unknown"]
                o["detail"] = "\n".join(e["text"] for e in es)[:4000]
        obl.append(o)
    # errors that could not be mapped to a function with a breakdown entry
    for fn, es in errs_by_fn.items():
        if fn in seen or any(fn and (s.endswith("::" + fn) or s == fn or s.split("::")[-1] == fn.split("::")[-1]) for s in seen):
            continue
        if fn and (fn.split("::")[-1]).startswith("must_fail_"):
            continue
        if all(e["rlimit"] for e in es):
            obl.append({"id": "%s/%s" % (u, fn), "unit": u, "engine": "verus", "status": "undecided", "kind": "proved",
                        "detail": "solver resource limit exceeded"})
        else:
            obl.append({"id": "%s/%s" % (u, fn), "unit": u, "engine": "verus", "fn": fn, "status": "failed", "kind": "proved",
                        "real_code": bool(fn) and fn.split("::")[-1] in real_names,
                        "failed_kinds": sorted(set(e["kind"] for e in es if e["kind"])), "detail": "\n".join(e["text"] for e in es)[:4000]})
    # expected obligation count (vacuity guard: a unit that silently verifies nothing is not a pass)
    want = cfg.get("min_obligations", 1)
    n_real = len([o for o in obl if o.get("real_code")])
    if n_real < cfg.get("min_real_fns", 1) or len(obl) < want:
        obl.append({"id": u + "/count", "unit": u, "engine": "verus", "status": "undecided", "kind": "setup",
                    "detail": "obligation count %d (real-code fns %d) below the registered minimum %d/%d" % (len(obl), n_real, want, cfg.get("min_real_fns", 1))})
    info["wall_s"] = time.time() - t0
    return obl, info


# ------------------------------------------------------------------ Kani units

def run_kani_units(units, cfgs, repo, tier, work, prop=None):
    """All kani units of one crate share a scratch copy and a single cargo-kani invocation."""
    t0 = time.time()
    obl, infos = [], []
    by_crate = {}
    for u in units:
        by_crate.setdefault(cfgs[u]["crate"], []).append(u)
    for crate, us in by_crate.items():
        hfiles, hlist, hmeta, flags = [], [], {}, []
        for u in us:
            cfg = cfgs[u]
            for hf in cfg["harness_files"]:
                hfiles.append(os.path.join(unit_dir(u), hf))
            for h, hc in cfg["harnesses"].items():
                if hc.get("tier", "quick") == "thorough" and tier != "thorough":
                    continue
                only = cfg.get("serves_only", {}).get(h)
                if only is not None and prop is not None and prop not in only:
                    continue  # this harness serves other properties only: do not even run it
                if os.environ.get("VERIF_HARNESS") and not re.search(os.environ["VERIF_HARNESS"], h):
                    continue  # debugging aid (evidence is not written with --unit)
                hlist.append(h)
                hmeta[h] = (u, hc)
            for fl in cfg.get("flags", []):
                if fl not in flags:
                    flags.append(fl)
        info = {"units": us, "engine": "kani", "crate": crate, "harnesses": hlist, "trusted_scan": []}
        for hf in hfiles:
            info["trusted_scan"] += ["%s: %s" % (os.path.basename(hf), x) for x in scan_trusted(open(hf).read())]
        if not hlist:
            infos.append(info)
            continue
        try:
            scratch, pinfo = kani.prepare(repo, hfiles)
        except (kani.KaniSetupError, OSError) as e:
            for u in us:
                obl.append({"id": u + "/setup", "unit": u, "engine": "kani", "status": "undecided", "kind": "setup", "detail": "scratch copy failed: %s" % e})
            infos.append(info)
            continue
        try:
            info.update(pinfo)
            timeout = max(cfgs[u].get("timeout_thorough" if tier == "thorough" else "timeout", 1500) for u in us)
            res, out, wall, timed_out, rc = kani.run(scratch, crate, hlist, extra_flags=flags, timeout=timeout,
                                                     jobs=min(12, max(1, len(hlist))), log=os.path.join(work, "kani-%s.log" % crate),
                                                     mem_gb=max(cfgs[u].get("mem_gb", 14) for u in us))
            info["cmd"] = "cargo kani -p %s %s --harness <each of %d>" % (crate, " ".join(flags), len(hlist))
            info["kani_wall_s"] = wall
            compile_failed = ("error: could not compile" in out or "error[E" in out) and not res
            for h in hlist:
                u, hc = hmeta[h]
                expect = hc.get("expect", "pass")
                o = {"id": "%s/%s" % (u, h), "unit": u, "engine": "kani", "harness": h,
                     "kind": "must_fail" if expect == "fail" else hc.get("kind", "bounded"), "real_code": True}
                r = res.get(h)
                if r is None or r["status"] == "UNKNOWN":
                    o["status"] = "undecided"
                    if compile_failed:
                        m = re.search(r"(?s)(error(\[E\d+\])?:.*?)(\n\n|$)", out)
                        o["detail"] = "harness does not compile against the current tree: " + (m.group(1)[:600] if m else "")
                    elif timed_out:
                        o["detail"] = "CBMC wall-clock timeout (%ds)" % timeout
                    else:
                        o["detail"] = "no result from Kani (crash / OOM guard); rc=%s" % rc
                else:
                    o["time_s"] = r["time_s"]
                    o["checks"] = r["checks_total"]
                    if r["stubs"]:
                        o["stubs"] = r["stubs"]
                    if expect == "fail":
                        if r["status"] == "FAILED":
                            o["status"] = "expected_fail_ok"
                        else:
                            o["status"], o["detail"] = "undecided", "vacuity guard: a deliberately false harness verified"
                    elif r["status"] == "SUCCESSFUL":
                        if r["covers_total"] and r["covers_sat"] < hc.get("min_covers", r["covers_total"]):
                            o["status"], o["detail"] = "undecided", "vacuity guard: %d of %d cover properties unsatisfied" % (
                                r["covers_total"] - r["covers_sat"], r["covers_total"])
                        else:
                            o["status"] = "discharged"
                            o["covers"] = r["covers_total"]
                    elif r["status"] == "FAILED":
                        real_fail = [f for f in r["failed"] if "unwinding assertion" not in f]
                        if not real_fail:
                            o["status"], o["detail"] = "undecided", "no failed check reported: unwinding bound too small for the current code, or CBMC stopped by the memory guard (tool bound, not a violation)"
                        else:
                            o["status"] = "failed"
                            o["failed_kinds"] = sorted(set(real_fail))
                            o["failed_locs"] = ["%s:%s in %s" % l for l in r["failed_locs"]]
                            o["detail"] = r["raw"][-3000:]
                    else:
                        o["status"], o["detail"] = "undecided", "Kani status " + r["status"]
                obl.append(o)
        finally:
            kani.cleanup(scratch)
        infos.append(info)
    for i in infos:
        i["wall_s"] = time.time() - t0
    return obl, infos


# ------------------------------------------------------------------ replay

def run_replay(o, cfg, repo, work, seed):
    """Run the unit's executable replay/search harness against the real crate (cargo test in a scratch copy).
    Returns dict(found: bool, output: str)."""
    rp = cfg.get("replay")
    if not rp:
        return {"ran": False, "found": False, "output": "unit has no replay harness"}
    files = [os.path.join(unit_dir(o["unit"]), f) for f in rp["files"]]
    try:
        scratch, _ = kani.prepare(repo, files, for_tests=True)
    except Exception as e:
        return {"ran": False, "found": False, "output": "replay setup failed: %s" % e}
    try:
        env = dict(os.environ)
        env["CARGO_NET_OFFLINE"] = "true"
        env["VERIF_SEED"] = str(seed)
        env["CARGO_TARGET_DIR"] = os.path.join(scratch, "target")
        filt = rp.get("tests", {}).get(o["id"].split("/", 1)[1], rp.get("default_test", "verif_replay"))
        cmd = ["cargo", "test", "--offline", "-p", rp["crate"], "--lib", filt, "--", "--nocapture", "--test-threads", "1"]
        p = subprocess.run(cmd, cwd=scratch, env=env, capture_output=True, text=True, timeout=rp.get("timeout", 1500))
        out = p.stdout + "\n" + p.stderr
        found = "REPLAY-FAIL" in out or (p.returncode != 0 and "test result: FAILED" in out)
        built = "test result:" in out
        return {"ran": built, "found": found and built, "output": out[-6000:], "cmd": " ".join(cmd)}
    except subprocess.TimeoutExpired:
        return {"ran": False, "found": False, "output": "replay timed out"}
    finally:
        kani.cleanup(scratch)


def _kani_env():
    env = dict(os.environ)
    env["CARGO_NET_OFFLINE"] = "true"
    env.pop("RUSTUP_TOOLCHAIN", None)
    env.pop("RUSTFLAGS", None)
    return env


def kani_counterexample(o, cfg, repo, work):
    """Failed Kani obligation: re-run the harness with concrete playback, capture the generated unit test (the verifier's
    counterexample as concrete bytes) and run it natively against the real code (`cargo kani playback`)."""
    files = [os.path.join(unit_dir(o["unit"]), f) for f in cfg["harness_files"]]
    try:
        scratch, _ = kani.prepare(repo, files, for_tests=True)
    except Exception as e:
        return {"ran": False, "found": False, "output": "playback setup failed: %s" % e}
    try:
        h = o["harness"]
        cmd = ["cargo", "kani", "-p", cfg["crate"], "--harness", h, "-Z", "concrete-playback", "--concrete-playback=inplace"] + list(cfg.get("flags", []))
        try:
            p = subprocess.run(cmd, cwd=scratch, env=_kani_env(), capture_output=True, text=True, timeout=cfg.get("timeout", 1500))
        except subprocess.TimeoutExpired:
            return {"ran": False, "found": False, "output": "concrete playback generation timed out"}
        tests = []
        for hf in files:
            m = re.match(r"\s*//@@\s+append\s+(\S+)", open(hf).read())
            src = open(os.path.join(scratch, m.group(1))).read()
            for tm in re.finditer(r"(?s)#\[test\]\s*fn (kani_concrete_playback_%s_\d+)\(\)\s*\{.*?kani::concrete_playback_run\([^;]*;\s*\}" % re.escape(h), src):
                tests.append({"name": tm.group(1), "file": m.group(1), "source": tm.group(0)})
        if not tests:
            return {"ran": False, "found": False, "output": "Kani produced no concrete playback test\n" + (p.stdout + p.stderr)[-1500:]}
        found, outs = False, []
        for t in tests:
            cmd2 = ["cargo", "kani", "playback", "-Z", "concrete-playback", "-p", cfg["crate"], "--", "--nocapture", t["name"]]
            try:
                q = subprocess.run(cmd2, cwd=scratch, env=_kani_env(), capture_output=True, text=True, timeout=2400)
                out = q.stdout + q.stderr
            except subprocess.TimeoutExpired:
                out = "playback timed out"
            failed = "test result: FAILED" in out
            t["native_run"] = "FAILED (the real code violates the harness assertion on these inputs)" if failed else "passed / not run"
            t["output_tail"] = out[-1500:]
            found = found or failed
        return {"ran": True, "found": found, "kani_playback_tests": tests, "crate": cfg["crate"],
                "harness_files": cfg["harness_files"], "unit": o["unit"]}
    finally:
        kani.cleanup(scratch)


# ------------------------------------------------------------------ known findings

def load_known():
    known, fixed = [], []
    p = os.path.join(ROOT, "known_findings.txt")
    if os.path.exists(p):
        for ln in open(p):
            ln = ln.strip()
            if not ln or ln.startswith("#"):
                continue
            if ln.startswith("known:"):
                m = re.match(r"known:\s*property=(\S+)\s+obligation=(\S+)\s+(.*)$", ln)
                if m:
                    known.append({"property": m.group(1), "obligation": m.group(2), "what": m.group(3)})
            elif ln.startswith("fixed:"):
                fixed.append(ln)
    return known, fixed


# ------------------------------------------------------------------ main

def main(argv=None):
    ap = argparse.ArgumentParser()
    ap.add_argument("prop")
    ap.add_argument("--tier", default=os.environ.get("VERIF_TIER", "quick"), choices=["quick", "thorough"])
    ap.add_argument("--repo", default=os.environ.get("VERIF_REPO", "/repo"))
    ap.add_argument("--replay", default=None)
    ap.add_argument("--unit", action="append", default=None, help="restrict to these units (debugging; evidence is not written)")
    ap.add_argument("--keep", action="store_true")
    a = ap.parse_args(argv)
    seed = int(os.environ.get("VERIF_SEED", "0") or 0)
    t0 = time.time()
    reg = load_json(os.path.join(ROOT, "registry.json"))
    if a.prop not in reg["properties"]:
        print("UNDECIDED: property %s has no registered check (see MANIFEST.not_applicable)" % a.prop)
        return 2
    if a.replay:
        return replay_file(a.replay, a.repo, seed)
    pr = reg["properties"][a.prop]
    units = [u for u in pr["units"] if (a.unit is None or u in a.unit)]
    cfgs = {u: load_json(os.path.join(unit_dir(u), "unit.json")) for u in units}
    # a run against a scratch tree (seeded change, self-test) never touches the work dir or the evidence of the real check
    scratch_tag = "" if os.path.realpath(a.repo) == "/repo" else "-" + re.sub(r"[^A-Za-z0-9_.]", "_", os.path.basename(os.path.normpath(a.repo)))
    work = os.path.join(ROOT, ".work", a.prop + scratch_tag)
    shutil.rmtree(work, ignore_errors=True)
    os.makedirs(work, exist_ok=True)
    os.makedirs(os.path.join(ROOT, "replays"), exist_ok=True)
    os.makedirs(os.path.join(ROOT, "evidence"), exist_ok=True)

    obligations, infos = [], []
    vunits = [u for u in units if cfgs[u]["engine"] == "verus"]
    kunits = [u for u in units if cfgs[u]["engine"] == "kani"]
    with cf.ThreadPoolExecutor(max_workers=6) as ex:
        futs = [ex.submit(run_verus_unit, u, cfgs[u], a.repo, a.tier, work) for u in vunits]
        kf = ex.submit(run_kani_units, kunits, cfgs, a.repo, a.tier, work, a.prop) if kunits else None
        for f in futs:
            o, i = f.result()
            obligations += o
            infos.append(i)
        if kf:
            o, i = kf.result()
            obligations += o
            infos += i

    # thorough tier: run each unit's replay/search harness on the current tree as a differential check of the executable
    # form of the contracts against the real crate (guards against a spec that drifted from the code, and exercises the
    # assumptions the proofs rest on, e.g. TrieBuilder => TrieWf).  Labelled `differential`, never counted as proof.
    if a.tier == "thorough":
        done = set()
        for u in units:
            rp = cfgs[u].get("replay")
            if not rp:
                continue
            key = (tuple(rp["files"]), rp.get("default_test"))
            if key in done:
                continue
            done.add(key)
            o = {"id": "%s/differential:%s" % (u, rp.get("default_test")), "unit": u, "engine": "cargo-test", "kind": "differential: seeded search on the real crate (not a proof)", "real_code": True}
            rep = run_replay(o, cfgs[u], a.repo, work, seed)
            if rep.get("found"):
                o["status"] = "failed"
                i = rep["output"].find("REPLAY-FAIL")
                o["detail"] = rep["output"][i:i + 1500] if i >= 0 else rep["output"][-1500:]
                o["failed_kinds"] = ["differential"]
                o["replay_result"] = rep
            elif rep.get("ran"):
                o["status"] = "discharged"
                m = re.search(r"(verif_replay\w*: \d+ [^\n]*ok)", rep["output"])
                o["detail"] = m.group(1) if m else ""
            else:
                o["status"], o["detail"] = "undecided", "differential harness did not build/run: " + rep.get("output", "")[-300:]
            obligations.append(o)

    # keep only obligations that serve this property (a unit may list per-obligation property filters)
    def serves(o):
        cfg = cfgs[o["unit"]]
        only = cfg.get("serves_only", {})
        key = o["id"].split("/", 1)[1]
        if key in only:
            return a.prop in only[key]
        if "serves_default" in cfg and not key.startswith(("splice", "verus", "count", "setup", "differential")):
            return a.prop in cfg["serves_default"]
        return True
    obligations = [o for o in obligations if serves(o)]

    # A Verus unit whose overlay no longer fits the text of /repo (function restructured: lost anchor, unsupported construct, type
    # error) cannot be decided by proof.  Before answering UNDECIDED, run the unit's executable contract (its replay/search harness)
    # on the real crate: a concrete failing input found there is a violation demonstrated on the real code and is reported as one
    # (obligation kind `contract-replay`); if none is found the answer stays UNDECIDED (exit 2) - the absence of a failing input
    # is never counted as a proof.
    done_rp = {}
    for o in [o for o in obligations if o["status"] == "undecided" and o.get("kind") == "setup" and o["engine"] == "verus"]:
        rpc = cfgs[o["unit"]].get("replay")
        if not rpc:
            continue
        key = (tuple(rpc["files"]), rpc.get("default_test"))
        if key not in done_rp:
            done_rp[key] = run_replay({"id": o["unit"] + "/contract-replay", "unit": o["unit"]}, cfgs[o["unit"]], a.repo, work, seed)
        rep = done_rp[key]
        if rep.get("found"):
            i = rep["output"].find("REPLAY-FAIL")
            o["status"], o["kind"] = "failed", "contract-replay: proof not applicable to the changed text; the executable contract fails on the real code"
            o["failed_kinds"] = ["contract-replay"]
            o["detail"] = "proof undecided (%s); executable contract on the real crate: %s" % (
                (o.get("detail") or "").split("\n")[0][:300], rep["output"][i:i + 1200] if i >= 0 else rep["output"][-1200:])
            o["replay_result"] = rep
        else:
            o["contract_replay"] = "ran, no failing input" if rep.get("ran") else "did not run"

    known, fixed = load_known()
    failed = [o for o in obligations if o["status"] == "failed"]
    undec = [o for o in obligations if o["status"] == "undecided"]
    violations, known_hits = [], []
    for o in failed:
        k = [x for x in known if x["property"] == a.prop and x["obligation"] == o["id"]]
        if k:
            known_hits.append((o, k[0]))
            continue
        violations.append(o)

    lines = []
    for o, k in known_hits:
        lines.append("KNOWN-FINDING: property=%s %s (%s)" % (a.prop, k["what"], o["id"]))
    for o in violations:
        if o.get("replay_result"):
            rep = o.pop("replay_result")
        elif o["engine"] == "kani":
            rep = kani_counterexample(o, cfgs[o["unit"]], a.repo, work)
            if not rep.get("found") and cfgs[o["unit"]].get("replay"):
                rep2 = run_replay(o, cfgs[o["unit"]], a.repo, work, seed)
                if rep2.get("found"):
                    rep = rep2
        else:
            rep = run_replay(o, cfgs[o["unit"]], a.repo, work, seed)
        rp = os.path.join(ROOT, "replays", "%s-%s.json" % (a.prop, re.sub(r"[^A-Za-z0-9_.-]", "_", o["id"])))
        with open(rp, "w") as f:
            json.dump({"property": a.prop, "failed_obligation": o["id"], "engine": o["engine"], "failed_kinds": o.get("failed_kinds"),
                       "failed_locs": o.get("failed_locs"), "source": o.get("source"), "verifier_output": o.get("detail"),
                       "replay": rep, "seed": seed, "repo": a.repo,
                       "how_to_rerun": "./check %s --replay %s" % (a.prop, rp)}, f, indent=1)
        suffix = "" if rep.get("found") else " no-failing-input-found"
        lines.append("VIOLATION property=%s replay=%s obligation=%s%s" % (a.prop, rp, o["id"], suffix))
        o["replay_file"] = rp
        o["replay_found_input"] = bool(rep.get("found"))
    for o in undec:
        lines.append("UNDECIDED: property=%s obligation=%s: %s" % (a.prop, o["id"], (o.get("detail") or "").split("\n")[0][:300]))

    wall = time.time() - t0
    if a.unit is None:
        write_evidence(a.prop, pr, a.tier, seed, obligations, infos, cfgs, wall, len(violations), known_hits, fixed,
                       out_dir=os.path.join(ROOT, "evidence") if not scratch_tag else work)
    # summary
    nd = len([o for o in obligations if o["status"] == "discharged"])
    nm = len([o for o in obligations if o["status"] == "expected_fail_ok"])
    print("property %s tier=%s: %d obligations, %d discharged, %d failed, %d undecided, %d must-fail guards rejected as expected; %.1fs" % (
        a.prop, a.tier, len([o for o in obligations if o["kind"] != "must_fail"]), nd, len(failed), len(undec), nm, wall))
    for ln in lines:
        print(ln)
    if not a.keep:
        pass
    if violations:
        return 1
    if undec:
        return 2
    return 0


def write_evidence(prop, pr, tier, seed, obligations, infos, cfgs, wall, nviol, known_hits, fixed, out_dir=None):
    real = [o for o in obligations if o["kind"] != "must_fail"]
    disch = [o for o in real if o["status"] == "discharged"]
    bounded = [o for o in real if str(o.get("kind", "")).startswith("bounded")]
    differential = [o for o in real if str(o.get("kind", "")).startswith("differential")]
    proved = [o for o in real if not str(o.get("kind", "")).startswith("bounded") and not str(o.get("kind", "")).startswith("differential")]
    samples = []
    for o in real[:400]:
        s = {"obligation": o["id"], "engine": o["engine"], "kind": o.get("kind"), "status": o["status"]}
        for k in ("source", "time_ms", "time_s", "checks", "covers", "real_code", "failed_kinds", "stubs", "detail"):
            if k == "detail" and not str(o.get("kind", "")).startswith("differential"):
                continue
            if k in o:
                s[k] = o[k]
        samples.append(s)
    trusted, assumptions, drops, rewrites, items, cmds = [], [], [], [], [], []
    solver_ms = 0.0
    for u, cfg in cfgs.items():
        for x in cfg.get("assumptions", []):
            assumptions.append("%s: %s" % (u, x))
        for x in cfg.get("drops", []):
            drops.append("%s: %s" % (u, x))
    for i in infos:
        for x in i.get("trusted_scan", []):
            trusted.append("%s: %s" % (i.get("unit") or ",".join(i.get("units", [])), x))
        for x in i.get("rewrites", []):
            rewrites.append(dict(x, unit=i.get("unit")))
        for x in i.get("items", []):
            items.append({"unit": i.get("unit"), "file": x.get("file"), "item": x.get("item"), "repo_lines": x.get("repo_lines")})
        for x in i.get("appended", []):
            items.append({"unit": ",".join(i.get("units", [])), "harness_appended_to_real_file": x["to"], "harness_file": x["harness_file"]})
        for x in i.get("spans", []):
            items.append({"unit": ",".join(i.get("units", [])), "real_statement_span": x})
        if i.get("cmd"):
            cmds.append(i["cmd"])
        if i.get("smt_ms"):
            solver_ms += i["smt_ms"]
    for o in real:
        if o.get("time_s"):
            solver_ms += o["time_s"] * 1000.0
    fns_under_contract = sorted(set(o.get("fn") or o.get("harness") for o in real if o.get("real_code") and (o.get("fn") or o.get("harness"))))
    ev = {
        "property_id": prop,
        "tier": tier,
        "seed": seed,
        "level": pr.get("level", "proof"),
        "coverage": {
            "obligations": len(real),
            "discharged": len(disch),
            "obligations_unbounded_proof": len(proved),
            "obligations_bounded_standin": len(bounded),
            "obligations_differential_not_proof": len(differential),
            "bounded_standins": [{"obligation": o["id"], "bound": o["kind"]} for o in bounded],
            "must_fail_guards_rejected": len([o for o in obligations if o["status"] == "expected_fail_ok"]),
            "checker_cmd": " ; ".join(cmds) if cmds else "none",
            "backends": sorted(set({"verus": "verus 0.2026.09.13 + z3 4.16", "kani": "kani 0.68 + cbmc 6.11"}.get(o["engine"], "cargo test (differential only)") for o in real)),
            "solver_time_s": round(solver_ms / 1000.0, 2),
            "trusted_base": sorted(set(trusted)) + ["rustc front end; Verus/z3; Kani/CBMC/kissat"],
            "functions_under_contract": fns_under_contract,
            "items_taken_from_repo": items,
            "rewrites_applied": rewrites,
            "extraction_drops": drops,
            "samples": samples,
            "evaluations": len(real),
            "distinct_nontrivial": len(set(o["id"] for o in real)),
            "rule": "one case = one proof obligation (a function under contract checked by Verus, or a Kani harness); all are distinct by id; must_fail guards are not counted",
            "explanation": pr.get("explanation", ""),
            "known_findings_reported": [k["what"] for (_, k) in known_hits],
            "fixed_findings_on_record": fixed,
        },
        "assumptions": assumptions + pr.get("assumptions", []),
        "wall_s": round(wall, 2),
        "violations": nviol,
    }
    with open(os.path.join(out_dir or os.path.join(ROOT, "evidence"), prop + ".json"), "w") as f:
        json.dump(ev, f, indent=1)


def replay_file(path, repo, seed):
    d = load_json(path)
    print("replaying %s (obligation %s)" % (path, d["failed_obligation"]))
    unit = d["failed_obligation"].split("/")[0]
    cfg = load_json(os.path.join(unit_dir(unit), "unit.json"))
    work = os.path.join(ROOT, ".work", "replay")
    os.makedirs(work, exist_ok=True)
    if d.get("engine") == "kani":
        rep = kani_counterexample({"unit": unit, "harness": d["failed_obligation"].split("/", 1)[1]}, cfg, repo, work)
        for t in rep.get("kani_playback_tests", []):
            print(t["name"], "->", t.get("native_run"))
            print(t.get("output_tail", "")[-800:])
        if rep.get("found"):
            print("VIOLATION property=%s replay=%s" % (d["property"], path))
            return 1
        print("replay did not reproduce a failing input on this tree")
        return 0
    rep = run_replay({"id": d["failed_obligation"], "unit": unit}, cfg, repo, work, d.get("seed", seed))
    print(rep.get("output", "")[-3000:])
    if rep.get("found"):
        print("VIOLATION property=%s replay=%s" % (d["property"], path))
        return 1
    print("replay did not reproduce a failing input on this tree")
    return 0


if __name__ == "__main__":
    sys.exit(main())
